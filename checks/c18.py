"""C18 — a pooled Merkle-map cache never serves data from a superseded generation.

Engine A (Kani/CBMC) over the real `mithril-resource-pool` crate: from an arbitrary valid pool state the
solver chooses a history of STEPS operations (acquire / give back explicitly or by drop / raw give-back
with an arbitrary tag / refresh with an arbitrary refill / reset) by up to two users; the invariant is
asserted after every operation and the pool is drained at the end.
"""
import os
import re
import shutil
import subprocess

from lib import core, kani

SOURCES = ["internal/mithril-resource-pool/src/resource_pool.rs"]
FUNCTIONS = [
    "mithril_resource_pool::ResourcePool::{new, acquire_resource, give_back_resource, give_back_resource_pool_item, "
    "reset_available_resources, clear, discriminant, set_discriminant, count, size}",
    "mithril_resource_pool::ResourcePoolItem::{new, discriminant, take, deref, drop}",
]

QUICK = ["c18_sym_h3_s2_i1_u1", "c18_sym_h3_s1_i1_u1", "c18_sym_h3_s2_i0_u1", "c18_sym_h2_s2_i2_u2", "c18_pre_h2_s2_i1_u1"]
THOROUGH = QUICK + ["c18_sym_h4_s2_i1_u1", "c18_sym_h4_s1_i1_u1", "c18_sym_h4_s2_i0_u1", "c18_sym_h3_s2_i2_u2", "c18_sym_h4_s2_i2_u2",
                    "c18_sym_h3_s3_i2_u2", "c18_sym_h3_s3_i3_u2", "c18_sym_h5_s2_i1_u1", "c18_pre_h3_s2_i1_u1", "c18_pre_h2_s2_i2_u2"]


def shape(name):
    m = re.search(r"h(\d)_s(\d)_i(\d)_u(\d)", name)
    return {"steps": int(m.group(1)), "size": int(m.group(2)), "idle": int(m.group(3)), "users": int(m.group(4)), "preempt": "_pre_" in name}


def classify(check_desc):
    if "superseded generation" in check_desc:
        return "stale-resource-readmitted"
    if "more than its size" in check_desc or "deque outgrew" in check_desc:
        return "pool-exceeds-size"
    if "tagged with current generation" in check_desc or "carries current generation" in check_desc:
        return "item-tag-not-current"
    return "other"


def native_search(sh):
    """Confirm on the real crate, natively: exhaustive run of every operation sequence of the harness's shape
    over a grid of generations/tags/paths (replay/pool).  Returns (list of VIOLATED lines, raw output)."""
    cdir = os.path.join(core.REPLAY_CRATES, "pool")
    shutil.copyfile(os.path.join(core.REPO, "Cargo.lock"), os.path.join(cdir, "Cargo.lock"))
    env = dict(os.environ)
    env["CARGO_NET_OFFLINE"] = "true"
    out = {}
    for prof in ("dev", "release"):
        cmd = ["cargo", "run", "--offline", "-q", "--target-dir", os.path.join(core.CACHE, "replay-target")]
        if prof == "release":
            cmd.append("--release")
        cmd += ["--", "all", str(sh["idle"]), str(sh["size"]), str(min(sh["steps"], 4)), str(sh["users"])]
        if sh.get("preempt"):
            cmd.append("preempt")
        p = subprocess.run(cmd, cwd=cdir, env=env, stdout=subprocess.PIPE, stderr=subprocess.PIPE, text=True, timeout=1500)
        out[prof] = p.stdout.strip().split("\n") if p.returncode == 0 else ["could not run: " + p.stderr[-300:]]
    return out


def run(tier, seed):
    rep = core.Report("C18", tier, seed)
    rep.functions = FUNCTIONS + ["source hashes: %s" % core.source_hashes(SOURCES)]
    rep.trusted_base = ["Kani 0.68 compiler (MIR -> goto)", "CBMC 6.11 + CaDiCaL", "the stubs listed under stubs_and_oracles"]
    rep.stubs = [
        "std::sync::Condvar::notify_one -> no-op (wake-up is outside the claim; reaches the futex syscall)",
        "std::sync::Condvar::wait_timeout -> path cut (blocking on an empty pool / time-out = liveness clause, outside)",
        "alloc::fmt::format -> String::new() (error message text)",
        "std::backtrace::Backtrace::capture -> Backtrace::disabled()",
        "<anyhow::Error as Drop>::drop -> no-op (errors are leaked: their vtable-dispatched drop glue over captured backtraces is what timed CBMC out)",
        "std::collections::VecDeque::grow -> assert(false) + cut: the harness gives the deque capacity SIZE+2, so reallocation is only reachable "
        "if the pool exceeds its size by 2 (reported as a failure, not hidden)",
    ]
    rep.assumptions = [
        "pre-state satisfies the representation invariant: IDLE <= SIZE idle resources, all of the current generation",
        "resources come back under the tag of the generation they were built for (honest callers); raw give-backs use an arbitrary pair (g, g)",
        "refresh = set_discriminant(d+1); clear(); refill j<=SIZE resources of generation d+1 (prover.rs compute_cache), d < u64::MAX",
        "operation granularity: every pool method is atomic w.r.t. other users (each takes and releases the pool's mutexes inside one call), except in the c18_pre_* harnesses where Reset::reset inside a give-back is a preemption point (context bound 1)",
        "Kani models atomics and Mutex sequentially",
    ]
    rep.outside = [
        "blocking acquire on an empty pool, wake-up and time-out (liveness sentence of the property)",
        "more than one preemption; preemption points other than Reset::reset inside give_back_resource (e.g. between count() and the push, or between set_discriminant and clear of a refresh), weak memory, real threads",
        "histories longer than STEPS, pools larger than 3, more than 2 concurrent holders",
        "MKMap::reset/compress (the real resource type) — the harness resource is a generation tag",
    ]
    names = QUICK if tier == "quick" else THOROUGH
    import random
    order = list(names)
    random.Random(seed).shuffle(order)
    full = ["harness::" + n for n in order] + ["harness::c18_vacuity_twin"]
    rep.enumerated = ["harness shapes (steps, pool size, initial idle count, users): %s" % [shape(n) for n in names]]
    rep.solver_vars = ["which operation happens at each step and which user performs it", "initial generation g0: u64",
                       "tag/generation g of every raw give-back: u64", "refill count of every refresh: 0..=SIZE",
                       "return path of every held item (explicit give_back_resource_pool_item vs drop)"]
    rep.bounds = {"unwind": 6, "max_steps": max(shape(n)["steps"] for n in names), "max_pool_size": max(shape(n)["size"] for n in names), "users": 2}
    timeout = 900 if tier == "quick" else 3000
    results, build_ok, logpath, wall, rc = kani.run("pool", full, jobs=8, harness_timeout_s=timeout, logname="kani-c18-%s.log" % tier,
                                                    mem_kb=20_000_000)
    if not build_ok:
        rep.inconcl("harness crate did not build / no harness ran (see %s)" % logpath)
        return rep.finish()
    failing = {}
    for n in full:
        r = results[n]
        short = n.split("::")[-1]
        if short == "c18_vacuity_twin":
            ob = rep.add(core.Obligation(n, "kani", "vacuity twin: a final assert(false) after a pool operation must be reported reachable (stubs do not cut every path)"))
            ob.solver_s = r.time_s
            if r.status == "failed" and any("TWIN" in c[0] for c in r.failed_checks):
                ob.status = "discharged"
            else:
                ob.status = "inconclusive"
                ob.detail = "twin did not fail (%s): harness family may be vacuous" % r.status
                rep.inconcl(ob.detail)
            continue
        sh = shape(short)
        ob = rep.add(core.Obligation(n, "kani", ("every history of %(steps)d solver-chosen operations by %(users)d user(s) on a pool of size %(size)d with %(idle)d idle" % sh) +
                                     (", with one solver-placed preemption (a refresh or raw give-back by another user) inside a give-back's Reset::reset" if sh["preempt"] else "") +
                                     ": idle resources all of the current generation, count <= size, acquired item of the current generation",
                                     dict(sh, vccs=r.n_checks, unwind=6)))
        ob.solver_s = r.time_s
        ob.covers = (r.covers_sat, r.covers_total)
        if r.status == "success":
            if r.covers_total and r.covers_sat < r.covers_total:
                ob.status = "inconclusive"
                ob.detail = "cover witness unsatisfied (vacuous harness)"
                rep.inconcl("%s: cover witness unsatisfied" % n)
            else:
                ob.status = "discharged"
        elif r.status == "failed":
            ob.status = "failed"
            ob.failed_checks = [c[0] + " @ " + c[1] for c in r.failed_checks]
            roles = sorted({classify(c[0]) for c in r.failed_checks}) or ["other"]
            ob.role = "c18-" + roles[0]
            for role in roles:
                failing.setdefault(role, []).append((n, sh, ob))
        else:
            ob.status = "inconclusive"
            ob.detail = r.status
            rep.inconcl("%s: %s" % (n, r.status))
    # native confirmation, one per violation class (smallest shape first)
    k = 0
    for role, lst in sorted(failing.items()):
        lst.sort(key=lambda t: (t[1]["steps"], t[1]["size"], t[0]))
        n, sh, ob = lst[0]
        k += 1
        native = native_search(sh)
        hits = [l for l in native.get("dev", []) if l.startswith("VIOLATED " + role)]
        payload = {"property": "C18", "role": "c18-" + role, "harness": n, "shape": sh, "failed_checks": ob.failed_checks,
                   "other_failing_harnesses": [t[0] for t in lst[1:]], "native_replay": native,
                   "how": "CBMC decided the harness FAILED; Kani's concrete-playback trace generation exhausts memory on this crate (14 GB), so the "
                          "counterexample is confirmed natively by running every operation sequence of the same shape on the real crate (replay/pool)"}
        path = core.write_replay("C18", k, payload)
        ob.counterexample = {"native": hits[:2]}
        what = "%s in harness %s; native: %s" % (role, n.split("::")[-1], hits[0] if hits else "not reproduced")
        rep.violation("c18-" + role, what, path, reproduced=bool(hits))
        if hits:
            rep.traces_validated += 1
    return rep.finish()


def replay(payload):
    sh = payload["shape"]
    native = native_search(sh)
    for prof, lines in native.items():
        for l in lines:
            print(prof + ": " + l)
    role = payload["role"][len("c18-"):]
    return 1 if any(l.startswith("VIOLATED " + role) for l in native.get("dev", [])) else 0
