"""C18 — a pooled Merkle-map cache never serves data from a superseded generation.

Engine A (Kani/CBMC) over the real `mithril-resource-pool` crate.  One harness per enumerated
operation sequence (checks/c18_gen.py); the solver quantifies over the generation numbers, the tag of
raw give-backs and the return path (explicit give-back vs drop) of every held item.
"""
import os
import re

from lib import core, kani, playback
from . import c18_gen

FUNCTIONS = [
    "mithril_resource_pool::ResourcePool::{new, acquire_resource, give_back_resource, give_back_resource_pool_item, "
    "reset_available_resources, clear, discriminant, set_discriminant, count, size}",
    "mithril_resource_pool::ResourcePoolItem::{new, discriminant, take, deref, drop}",
]
SOURCES = ["internal/mithril-resource-pool/src/resource_pool.rs"]


def classify(check_desc):
    if "superseded generation" in check_desc:
        return "stale-resource-readmitted"
    if "more than its size" in check_desc:
        return "pool-exceeds-size"
    if "tagged with current generation" in check_desc or "item carries current generation" in check_desc:
        return "item-tag-not-current"
    if "deque outgrew" in check_desc:
        return "pool-exceeds-size"
    return "other:" + check_desc[:60]


def run(tier, seed):
    rep = core.Report("C18", tier, seed)
    rep.functions = FUNCTIONS + ["source hashes: %s" % core.source_hashes(SOURCES)]
    rep.stubs = [
        "std::sync::Condvar::notify_one -> no-op (wake-up is outside the claim; reaches futex syscall)",
        "std::sync::Condvar::wait_timeout -> path cut (blocking on an empty pool / time-out = liveness clause, outside)",
        "alloc::fmt::format -> String::new() (error message text)",
        "std::backtrace::Backtrace::capture -> Backtrace::disabled()",
        "std::collections::VecDeque::grow -> assert(false) + cut: the harness gives the deque capacity SIZE+2, "
        "so reallocation is only reachable if the pool exceeds its size by 2 (reported, not hidden)",
    ]
    rep.assumptions = [
        "pre-state satisfies the representation invariant: IDLE <= SIZE idle resources, all of the current generation",
        "resources are returned under the tag of the generation they were built for (honest callers); raw give-backs use an arbitrary tag/generation pair (g, g)",
        "refresh = set_discriminant(d+1); clear(); refill j resources of generation d+1 (prover.rs compute_cache), d < u64::MAX",
        "operation granularity: every pool method is atomic w.r.t. other users (each takes and releases the pool's mutexes inside one call); finer interleavings and real threads are outside",
        "Kani models atomics and Mutex sequentially",
    ]
    rep.outside = [
        "blocking acquire on an empty pool, wake-up and time-out (liveness sentence of the property)",
        "preemption inside give_back_resource between count() and the push (check-then-act), weak memory",
        "histories longer than the enumerated length, pools larger than 3, more than 2 concurrent holders",
        "MKMap::reset/compress (the real resource type) — the harness resource is a generation tag",
    ]
    plan = c18_gen.plan(tier)
    # seed permutes scheduling order only
    import random
    rnd = random.Random(seed)
    order = list(plan)
    rnd.shuffle(order)
    with open(os.path.join(kani.crate_dir("pool"), "src", "generated.rs"), "w") as f:
        f.write(c18_gen.render(plan))
    names = ["generated::" + h[0] for h in order] + ["harness::c18_vacuity_twin"]
    rep.enumerated = ["operation sequences (%d): length<=%d over {A<u>,B<u>,R,F<j>,X}" % (len(plan), max(len(h[3]) for h in plan)),
                      "pool size and initial idle count per sequence: %s" % sorted({(h[1], h[2]) for h in plan})]
    rep.solver_vars = ["initial generation g0: u64", "tag/generation g of every raw give-back: u64",
                       "return path of every held item (explicit give_back_resource_pool_item vs drop): bool"]
    rep.bounds = {"unwind": 6, "max_ops": max(len(h[3]) for h in plan), "max_pool_size": max(h[2] for h in plan), "users": 2}
    timeout = 300 if tier == "quick" else 600
    results, build_ok, logpath, wall, rc = kani.run("pool", names, jobs=14, harness_timeout_s=timeout, logname="kani-c18-%s.log" % tier)
    if not build_ok:
        rep.inconcl("harness crate did not build / no harness ran (see %s)" % logpath)
        return rep.finish()
    seqs = {"generated::" + h[0]: h for h in plan}
    failing = []
    for n in names:
        r = results[n]
        if n == "harness::c18_vacuity_twin":
            ob = rep.add(core.Obligation(n, "kani", "vacuity twin: final assert(false) must be reported reachable"))
            ob.solver_s = r.time_s
            if r.status == "failed" and any("TWIN" in c[0] for c in r.failed_checks):
                ob.status = "discharged"
            else:
                ob.status = "inconclusive"
                ob.detail = "twin did not fail: harness family may be vacuous (%s)" % r.status
                rep.inconcl(ob.detail)
            continue
        h = seqs[n]
        ob = rep.add(core.Obligation(n, "kani", "sequence %s from idle=%d size=%d: idle resources all of current generation, count<=size, acquired item of current generation" % (
            " ".join(h[3]), h[1], h[2]), {"vccs": r.n_checks, "unwind": 6}))
        ob.solver_s = r.time_s
        ob.covers = (r.covers_sat, r.covers_total)
        if r.status == "success":
            if r.covers_total and r.covers_sat < r.covers_total:
                ob.status = "inconclusive"
                ob.detail = "cover witness unsatisfied (vacuous harness)"
                rep.inconcl("%s: cover witness unsatisfied" % n)
            else:
                ob.status = "discharged"
        elif r.status == "failed":
            ob.status = "failed"
            ob.failed_checks = [c[0] + " @ " + c[1] for c in r.failed_checks]
            failing.append((n, h, r, ob))
        else:
            ob.status = "inconclusive"
            ob.detail = r.status
            rep.inconcl("%s: %s" % (n, r.status))
    # replay failures natively: one representative per (role) class, shortest sequence first
    by_role = {}
    for n, h, r, ob in failing:
        roles = sorted({classify(c[0]) for c in r.failed_checks}) or ["other:unknown"]
        ob.role = roles[0]
        for role in roles:
            by_role.setdefault(role, []).append((n, h, r, ob))
    k = 0
    for role, lst in sorted(by_role.items()):
        lst.sort(key=lambda t: (len(t[1][3]), t[0]))
        n, h, r, ob = lst[0]
        k += 1
        res = playback.replay_kani("pool", n, logname="kani-c18-playback-%d.log" % k)
        payload = {"property": "C18", "role": role, "harness": n, "sequence": h[3], "idle": h[1], "size": h[2],
                   "failed_checks": ob.failed_checks, "other_failing_harnesses": [t[0] for t in lst[1:]][:40],
                   "native_replay": res}
        path = core.write_replay("C18", k, payload)
        ob.counterexample = {"concrete_values": res.get("values"), "native": res.get("native_outcome")}
        what = "%s after [%s] (idle=%d,size=%d); %d failing sequences in this class" % (role, " ".join(h[3]), h[1], h[2], len(lst))
        rep.violation("c18-" + role, what, path, reproduced=res.get("reproduced", False))
        if res.get("reproduced"):
            rep.traces_validated += 1
    return rep.finish()
