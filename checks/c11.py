"""C11 — certified sets reported as signed: injectivity of the Merkle leaf encodings (the bottom layer).

Engine B with symbolic-length byte strings: the MIR of `From<StakeDistributionEntry> for MKTreeNode`,
`CardanoBlockTransactionMkTreeNode::leaf_identifier` and the Display impls they use is executed on two symbolic
values; the obligation "equal leaf bytes => equal fields" is decided by z3 over all contents and all lengths up to the bound.
"""
import os
import re
import subprocess

import z3

from lib import core, mir, smt
from mir2smt import interp as MI
from mir2smt import models as MM
from mir2smt import fmt_models as FM
from mir2smt import sstr
from mir2smt import symval
from mir2smt.interp import Agg, EnumV, Ref, Opaque, Unencodable

SRC = ["mithril-common/src/signable_builder/cardano_stake_distribution.rs", "mithril-common/src/entities/cardano_block_transaction_mktree_node.rs",
       "mithril-common/src/entities/block_number.rs", "mithril-common/src/entities/slot_number.rs"]
BECH32 = b"qpzry9x8gf2tvdw0s3jn54khce6mua7l"
HEX = b"0123456789abcdef"
U64 = 2 ** 64


def c11_models(I, st, caller, func, args, argtys, dest_ty):
    f = MM.strip_std_paths(func)
    if re.search(r"MKTreeNode::new$", f):
        return MM.ret(st, Agg("adt", "MKTreeNode", (FM.as_symstr(I, st, args[0]),)))
    if re.match(r"^<(.*) as Into<(.*Bytes|Vec<u8>)>>::into$", f) or re.match(r"^<(Vec<u8>|.*Bytes) as From<String>>::from$", f):
        return MM.ret(st, FM.as_symstr(I, st, args[0]))
    return None


def mk_interp(prog):
    I = MI.Interp(prog, models=[c11_models, FM.fmt_models, MM.hof_models, MM.abs_models, MM.core_models], unroll=4)
    I.enum_tables.update(MM.ENUM_TABLE_EXTRA)
    return I


def run_one(I, f, args, cons):
    st = MI.State()
    for c in cons:
        st.assume(c)
    outs = [o for o in I.call_fn(f, args, st) if o.kind == "return"]
    if len(outs) != 1:
        raise Unencodable("%s: %d returning paths" % (f.name[-40:], len(outs)))
    return outs[0]


def leaf_of(v):
    while isinstance(v, Agg) and not isinstance(v, sstr.SymStr):
        if len(v.fields) != 1:
            raise Unencodable("unexpected leaf value %r" % (v,))
        v = v.fields[0]
    return v


def native_stake_roots(rows):
    """rows: [(id1, stake1, id2, stake2)] -> ['equal'|'different']"""
    from checks.c17 import native_query
    lines = native_query(["stake_root %s %d %s %d" % r for r in rows])
    return [l for l in lines if l in ("equal", "different")]


class _R:
    pass


def forked(la, lb, base, differ, maxd, ob):
    import time
    t0 = time.time()
    status, model, stats = sstr.decide_equal_implies(la, lb, base, differ, max_digits=maxd)
    r = _R()
    r.status, r.model, r.seconds, r.reason = status, model, time.time() - t0, "solver gave up"
    ob.solver_s = r.seconds
    ob.bounds.update(stats)
    return r


def run(tier, seed):
    rep = core.Report("C11", tier, seed)
    rep.trusted_base = ["rustc nightly MIR", "mir2smt interpreter + core::fmt lowering model (mir2smt/fmt_models.py) + symbolic-length strings (mir2smt/sstr.py)", "z3"]
    rep.functions = ["source hashes: %s" % core.source_hashes(SRC)]
    L_ID = 3 if tier == "quick" else 4
    L_HASH = 2 if tier == "quick" else 3
    rep.bounds = {"pool_id_max_len": L_ID, "hash_max_len": L_HASH, "numbers": "u64, forked on the decimal digit count"}
    rep.assumptions = [
        "honest value grammar: pool identifiers over the bech32 alphabet, hashes over [0-9a-f] (the property's quantifier); without it ('a/b','c') and ('a','b/c') collide",
        "format! is interpreted from its nightly lowering (template bytes + Argument::new_display); Display of BlockNumber/SlotNumber from their own MIR bodies",
        "MKTreeNode::new stores the bytes unchanged (internal/mithril-merkle-tree)",
    ]
    rep.outside = ["MkSetProof::verify, CardanoTransactionsProofsMessage::verify (root equality across sub-proofs), MKMapProof master/sub-proof linkage, "
                   "message recomputation in the client: MMR-based trees behind Arc<RwLock<HashMap>> and async clients", "strings longer than the bound"]
    rep.solver_vars = ["every byte and the length of every identifier / hash (up to the bound)", "stakes, block numbers, slot numbers: all of u64", "digit counts of the decimal renderings"]
    try:
        path, dt = mir.dump("mithril-common")
    except Exception as e:
        rep.inconcl("MIR dump failed: %s" % e)
        return rep.finish()
    prog = MI.Program(open(path).read(), source_root=os.path.join(core.REPO, "mithril-common"))
    tmo = 120 if tier == "quick" else 900
    MAXD = 8 if tier == "quick" else 20
    rep.bounds["decimal_digit_classes"] = "1..%d digits (numbers < 10^%d)%s" % (MAXD, MAXD, "" if MAXD < 20 else " = all of u64")
    failures = []
    # side "a" is an honest item (identifiers over their grammar); side "b" is what an altered response may contain: any bytes
    ALPHA = lambda tag, honest: honest if tag.endswith("a") else None
    LONG = {}
    LEN = lambda tag, which: LONG.get((tag[-1], which), L_HASH)
    MINLEN = lambda tag, which: LONG.get((tag[-1], which, "min"), 0)
    NUMMAX = [U64]
    try:
        I = mk_interp(prog)
        # ---- stake distribution leaf ------------------------------------------------------------------------------
        f_sd = prog.find_one(r"cardano_stake_distribution\.rs.*>::from$", nparams=1, param_regex=r"StakeDistributionEntry")
        sides = []
        for tag in ("a", "b"):
            pid, cons = sstr.symbolic("pool_id_" + tag, L_ID, ALPHA(tag, BECH32), minlen=1)
            stake = z3.Int("stake_" + tag)
            cons = cons + [stake >= 0, stake < U64]
            # the entry is built by the real constructor (a normalisation of the identifier there would be part of the leaf encoding)
            f_new = prog.find_one(r"cardano_stake_distribution\.rs.*>::new$", param_regex=r"-> (\w+::)*StakeDistributionEntry")
            o0 = run_one(I, f_new, [pid, stake], cons)
            outs_ = [x for x in I.call_fn(f_sd, [o0.value], o0.state) if x.kind == "return"]
            if len(outs_) != 1:
                raise Unencodable("stake leaf: %d returning paths" % len(outs_))
            o = outs_[0]
            sides.append((pid, stake, leaf_of(o.value), list(o.pc)))
        (pa, sa, la, ca), (pb, sb_, lb, cb) = sides
        ob = rep.add(core.Obligation("c11_stake_leaf_injective", "smt", "equal stake-distribution leaves => equal (pool id, stake)", {"id_len": L_ID}))
        r = forked(la, lb, ca + cb, z3.Or(z3.Not(sstr.equal(pa, pb)), sa != sb_), MAXD, ob)
        if r.status == "unsat":
            ob.status = "discharged"
        elif r.status == "sat":
            ob.status = "failed"
            ida, idb = sstr.eval_str(r.model, pa).decode(), sstr.eval_str(r.model, pb).decode()
            va, vb = r.model.eval(sa, model_completion=True).as_long(), r.model.eval(sb_, model_completion=True).as_long()
            ob.counterexample = {"a": [ida, va], "b": [idb, vb], "leaf": sstr.eval_str(r.model, la).decode()}
            failures.append(("stake_leaf", ob, (ida, va, idb, vb)))
        else:
            ob.status = "inconclusive"
            rep.inconcl("stake leaf: %s" % r.reason)
        # ---- block / transaction leaves ------------------------------------------------------------------------------
        f_li = prog.find_one(r"cardano_block_transaction_mktree_node\.rs.*>::leaf_identifier$")
        tbl = I.load_enum("CardanoBlockTransactionMkTreeNode")

        def node(kind, tag):
            cons = []
            if kind == "Block":
                h, c1 = sstr.symbolic("block_hash_" + tag, LEN(tag, "block"), ALPHA(tag, HEX), minlen=MINLEN(tag, "block"))
                bn, sl = z3.Int("block_number_" + tag), z3.Int("slot_number_" + tag)
                cons = c1 + [bn >= 0, bn < NUMMAX[0], sl >= 0, sl < NUMMAX[0]]
                v = EnumV("CardanoBlockTransactionMkTreeNode", tbl["Block"], {tbl["Block"]: (h, Agg("adt", "BlockNumber", (bn,)), Agg("adt", "SlotNumber", (sl,)))})
                fields = [h, bn, sl]
            else:
                th, c1 = sstr.symbolic("tx_hash_" + tag, LEN(tag, "tx"), ALPHA(tag, HEX), minlen=MINLEN(tag, "tx"))
                h, c2 = sstr.symbolic("block_hash_" + tag, LEN(tag, "block"), ALPHA(tag, HEX), minlen=MINLEN(tag, "block"))
                bn, sl = z3.Int("block_number_" + tag), z3.Int("slot_number_" + tag)
                cons = c1 + c2 + [bn >= 0, bn < NUMMAX[0], sl >= 0, sl < NUMMAX[0]]
                # field order of the Transaction variant follows the enum definition
                order = getattr(I, "enum_payloads", {}).get("CardanoBlockTransactionMkTreeNode", {}).get("Transaction")
                v = None
                fields = [th, h, bn, sl]
                v = EnumV("CardanoBlockTransactionMkTreeNode", tbl["Transaction"], {tbl["Transaction"]: tx_payload(I, th, h, bn, sl)})
            st = MI.State()
            for c in cons:
                st.assume(c)
            I.frame_counter += 1
            fr = I.frame_counter
            st.mem[(fr, 0)] = v
            outs = I.call_fn(f_li, [Ref(fr, 0, ())], st)
            if any(o.kind != "return" for o in outs) or not outs:
                raise Unencodable("leaf_identifier(%s): non-returning path" % kind)
            return [(fields, leaf_of(o.value), list(o.pc)) for o in outs]

        def decide_pairs(A, B, same_kind, ob, maxd):
            status, tot = "unsat", 0.0
            for fa, la, ca in A:
                for fb, lb, cb in B:
                    diff = z3.Or([z3.Not(sstr.equal(x, y)) if isinstance(x, sstr.SymStr) else x != y for x, y in zip(fa, fb)]) if same_kind else z3.BoolVal(True)
                    r = forked(la, lb, ca + cb, diff, maxd, ob)
                    tot += r.seconds
                    if r.status == "sat":
                        ev = lambda x: sstr.eval_str(r.model, x).decode("latin1") if isinstance(x, sstr.SymStr) else r.model.eval(x, model_completion=True).as_long()
                        ob.counterexample = {"leaf_a": sstr.eval_str(r.model, la).decode("latin1"), "leaf_b": sstr.eval_str(r.model, lb).decode("latin1"),
                                             "fields_a": [ev(x) for x in fa], "fields_b": [ev(x) for x in fb]}
                        ob.solver_s = tot
                        return "sat"
                    if r.status != "unsat":
                        status = "unknown"
            ob.solver_s = tot
            return status

        for ka, kb in (("Block", "Block"), ("Transaction", "Transaction"), ("Block", "Transaction")):
            A, B = node(ka, "a"), node(kb, "b")
            desc = ("equal %s leaves => equal fields" % ka) if ka == kb else "a Block leaf never equals a Transaction leaf"
            ob = rep.add(core.Obligation("c11_%s_vs_%s_leaf_injective" % (ka.lower(), kb.lower()), "smt", desc, {"hash_len": L_HASH, "paths": len(A) * len(B)}))
            status = decide_pairs(A, B, ka == kb, ob, MAXD)
            if status == "unsat":
                ob.status = "discharged"
            elif status == "sat":
                ob.status = "failed"
                failures.append(("%s_vs_%s" % (ka.lower(), kb.lower()), ob, ("node", ka, kb)))
            else:
                ob.status = "inconclusive"
                rep.inconcl("%s vs %s: solver gave up" % (ka, kb))
        # ---- item level: CardanoBlock / CardanoTransaction -> node -> MKTreeNode (the conversions the client-side proof check uses) ----
        from mir2smt import symval
        db = symval.TypeDB([os.path.join(core.REPO, "mithril-common", "src")])

        def item(kind, tag):
            tyname = "CardanoBlock" if kind == "Block" else "CardanoTransaction"
            fl = db.struct_fields(tyname)
            vals, cons, fields = [], [], []
            for fname, fty in fl:
                nt = MI.norm_type(fty)
                al = db.alias(nt)
                if nt == "String" or (al and MI.norm_type(al) == "String"):
                    sv, c1 = sstr.symbolic("%s_%s_%s" % (tyname, fname, tag), L_HASH, ALPHA(tag, HEX))
                    cons += c1
                    vals.append(sv)
                    fields.append(sv)
                else:
                    iv = z3.Int("%s_%s_%s" % (tyname, fname, tag))
                    cons += [iv >= 0, iv < U64]
                    vals.append(Agg("adt", nt, (iv,)))
                    fields.append(iv)
            f_conv = prog.find_one(r"cardano_block_transaction_mktree_node\.rs.*>::from$", nparams=1, param_regex=r"_1: (\w+::)*%s\)" % tyname)
            f_leaf = prog.find_one(r"cardano_block_transaction_mktree_node\.rs.*>::from$", nparams=1, param_regex=r"_1: (\w+::)*CardanoBlockTransactionMkTreeNode\)")
            st = MI.State()
            for c in cons:
                st.assume(c)
            outs = []
            for o in I.call_fn(f_conv, [Agg("adt", tyname, tuple(vals))], st):
                if o.kind != "return":
                    raise Unencodable("conversion of %s: %s" % (tyname, o.kind))
                for o2 in I.call_fn(f_leaf, [o.value], o.state):
                    if o2.kind != "return":
                        raise Unencodable("leaf of %s: %s" % (tyname, o2.kind))
                    outs.append((fields, leaf_of(o2.value), list(o2.pc)))
            return outs

        for ka, kb in (("Block", "Block"), ("Transaction", "Transaction"), ("Block", "Transaction")):
            A, B = item(ka, "a"), item(kb, "b")
            ob = rep.add(core.Obligation("c11_item_%s_vs_%s_injective" % (ka.lower(), kb.lower()), "smt",
                                         ("distinct %ss have distinct Merkle leaves" % ka) if ka == kb else "a block and a transaction never share a Merkle leaf",
                                         {"paths": len(A) * len(B), "hash_len": L_HASH}))
            status = decide_pairs(A, B, ka == kb, ob, MAXD)
            if status == "unsat":
                ob.status = "discharged"
            elif status == "sat":
                ob.status = "failed"
                failures.append(("item_%s_vs_%s" % (ka.lower(), kb.lower()), ob, ("item", ka, kb)))
            else:
                ob.status = "inconclusive"
                rep.inconcl("item %s vs %s: solver gave up" % (ka, kb))
        # ---- long hashes: an honest 64-character hash against an altered one of up to 66 bytes (truncation, fixed-width renderings) -----
        NUMMAX[0] = 10
        for ka, which in (("Block", "block"), ("Transaction", "tx"), ("Transaction", "block")):
            LONG.clear()
            LONG.update({("a", which): 64, ("a", which, "min"): 64, ("b", which): 66, ("b", which, "min"): 60})
            other = "tx" if which == "block" else "block"
            LONG.update({("a", other): 1, ("b", other): 1})
            A, B = node(ka, "la"), node(ka, "lb")
            ob = rep.add(core.Obligation("c11_%s_leaf_injective_long_%s_hash" % (ka.lower(), which), "smt",
                                         "equal %s leaves => equal fields, with an honest 64-character %s hash on one side and an altered one of 60..66 arbitrary bytes on the other (numbers < 10)" % (ka, which)))
            status = decide_pairs(A, B, True, ob, 1)
            if status == "unsat":
                ob.status = "discharged"
            elif status == "sat":
                ob.status = "failed"
                failures.append(("%s_leaf_long_hash" % ka.lower(), ob, ("node", ka, ka)))
            else:
                ob.status = "inconclusive"
                rep.inconcl("long %s hash (%s): solver gave up" % (which, ka))
        LONG.clear()
        NUMMAX[0] = U64
        # ---- wide numbers: every u64 digit class with one-character hashes (boundaries such as 2^63) ---------------------------
        if MAXD < 20:
            save = L_HASH
            L_HASH = 1
            for ka in ("Block", "Transaction"):
                A, B = node(ka, "wa"), node(ka, "wb")
                ob = rep.add(core.Obligation("c11_%s_leaf_injective_all_u64" % ka.lower(), "smt", "equal %s leaves => equal fields, numbers over all of u64 (20 digit classes), hashes of length <= 1" % ka))
                status = decide_pairs(A, B, True, ob, 20)
                if status == "unsat":
                    ob.status = "discharged"
                elif status == "sat":
                    ob.status = "failed"
                    failures.append(("%s_leaf_wide" % ka.lower(), ob, ("node", ka, ka)))
                else:
                    ob.status = "inconclusive"
                    rep.inconcl("wide %s: solver gave up" % ka)
            L_HASH = save
        # vacuity: the encoding really renders: a concrete block leaf equals the expected text
        fa, la, ca = node("Block", "w")[0]
        ob = rep.add(core.Obligation("c11_witness_block_leaf_text", "smt", "witness: hash 'ab', block 5, slot 13 renders as 'Block/ab/5/13' (translator sanity)"))
        want = sstr.literal(b"Block/ab/5/13")
        r = smt.check(ca + [sstr.equal(fa[0], sstr.literal(b"ab")), fa[1] == 5, fa[2] == 13, z3.Not(sstr.equal(la, want))], timeout_s=tmo)
        r2 = smt.check(ca + [sstr.equal(fa[0], sstr.literal(b"ab")), fa[1] == 5, fa[2] == 13], timeout_s=tmo)
        ob.status = "discharged" if (r.status == "unsat" and r2.status == "sat") else "inconclusive"
        if ob.status != "discharged":
            rep.inconcl("translator sanity failed: %s/%s" % (r.status, r2.status))
        else:
            rep.traces_validated += 1
        rep.functions += sorted("%s -> %s" % (k, v) for k, v in I.calls_seen.items())
    except Unencodable as e:
        rep.inconcl("unencodable: %s" % e)
    # ---- replay ---------------------------------------------------------------------------------------------------------
    k = 0
    for name, ob, cex in failures:
        k += 1
        role = "c11-" + name
        native = {}
        reproduced = False
        if name == "stake_leaf" and cex:
            ida, va, idb, vb = cex
            # classification: digits moved across the id / stake boundary
            if (ida + str(va)) == (idb + str(vb)) and (ida != idb):
                role = "c11-stake-leaf-digits-moved-across-boundary"
            try:
                res = native_stake_roots([(ida, va, idb, vb), ("pool1abc", 12, "pool1abc", 13)])
                native = {"distributions": [[ida, va], [idb, vb]], "merkle_roots": res[0], "control (different stakes)": res[1]}
                reproduced = res[0] == "equal" and res[1] == "different"
            except Exception as e:
                native["error"] = str(e)
        if cex and cex[0] in ("item", "node") and ob.counterexample:
            level, ka, kb = cex
            if ka == kb:
                try:
                    from checks.c17 import native_query
                    fa, fb = ob.counterexample["fields_a"], ob.counterexample["fields_b"]
                    if level == "item":
                        # item fields are in struct declaration order; the native query wants (hash.., n, slot)
                        db2 = symval.TypeDB([os.path.join(core.REPO, "mithril-common", "src")])
                        names = [n_ for n_, t_ in db2.struct_fields("CardanoBlock" if ka == "Block" else "CardanoTransaction")]
                        da, dbb = dict(zip(names, fa)), dict(zip(names, fb))
                        order = ["block_hash", "block_number", "slot_number"] if ka == "Block" else ["transaction_hash", "block_hash", "block_number", "slot_number"]
                        fa, fb = [da[n_] for n_ in order], [dbb[n_] for n_ in order]
                    q = "leaf_eq %s %s %s %s" % (level, "block" if ka == "Block" else "tx", " ".join(str(x) if x != "" else "-" for x in fa), " ".join(str(x) if x != "" else "-" for x in fb))
                    res = [l for l in native_query([q]) if l in ("equal", "different")]
                    native = {"query": q, "leaves": res[0]}
                    reproduced = res[0] == "equal" and fa != fb
                except Exception as e:
                    native = {"error": str(e)}
            else:
                try:
                    import json
                    from checks.c17 import native_query
                    fa, fb = ob.counterexample["fields_a"], ob.counterexample["fields_b"]

                    def ordered(kind, fl):
                        if level != "item":
                            return fl
                        db2 = symval.TypeDB([os.path.join(core.REPO, "mithril-common", "src")])
                        names = [n_ for n_, t_ in db2.struct_fields("CardanoBlock" if kind == "Block" else "CardanoTransaction")]
                        d_ = dict(zip(names, fl))
                        order = ["block_hash", "block_number", "slot_number"] if kind == "Block" else ["transaction_hash", "block_hash", "block_number", "slot_number"]
                        return [d_[n_] for n_ in order]
                    spec = {"level": level, "a": {"kind": "block" if ka == "Block" else "tx", "fields": ordered(ka, fa)}, "b": {"kind": "block" if kb == "Block" else "tx", "fields": ordered(kb, fb)}}
                    res = [l for l in native_query(["leaf_eqx " + json.dumps(spec).encode().hex()]) if l in ("equal", "different")]
                    native = {"query": spec, "leaves": res[0]}
                    reproduced = res[0] == "equal"
                except Exception as e:
                    native = {"error": str(e)}
        ob.role = role
        path = core.write_replay("C11", k, {"property": "C11", "role": role, "obligation": ob.name, "counterexample": ob.counterexample, "native_replay": native})
        rep.violation(role, "%s: %s; native %s" % (name, ob.counterexample, native), path, reproduced)
        if reproduced:
            rep.traces_validated += 1
    return rep.finish()


def tx_payload(I, th, h, bn, sl):
    """payload tuple of the Transaction variant in declaration order"""
    src = open(os.path.join(core.REPO, "mithril-common/src/entities/cardano_block_transaction_mktree_node.rs")).read()
    m = re.search(r"Transaction\s*\{([^}]*)\}", src)
    names = [x.split(":")[0].strip() for x in re.sub(r"//[^\n]*", "", m.group(1)).split(",") if ":" in x]
    vals = {"transaction_hash": th, "block_hash": h, "block_number": Agg("adt", "BlockNumber", (bn,)), "slot_number": Agg("adt", "SlotNumber", (sl,))}
    return tuple(vals[n] for n in names)
