"""C09 — Merkle membership proofs cannot vouch for anything outside the committed set (STM batch tree).

Engine B: the MIR of MerkleTree::{new, to_merkle_tree_batch_commitment, compute_merkle_tree_batch_path} and of
MerkleTreeBatchCommitment::verify_leaves_membership_from_batch_path (+ parent/sibling/left_child/right_child) is executed
symbolically with the digest modelled as an injective uninterpreted function (collision resistance).  Tree size and the
number of claimed leaves / path values are enumerated; leaf contents, claimed leaves, every path value and every index
(attacker chosen, below a stated bound) are symbolic.
"""
import itertools
import os
import re

import z3

from lib import core, mir, smt
from mir2smt import interp as MI
from mir2smt import models as MM
from mir2smt import container_models as CM
from mir2smt import num_models as NM
from mir2smt.interp import Abs, Agg, EnumV, Ref, Opaque, Outcome, Unencodable

SRC = ["mithril-stm/src/membership_commitment/merkle_tree/tree.rs", "mithril-stm/src/membership_commitment/merkle_tree/commitment.rs",
       "mithril-stm/src/membership_commitment/merkle_tree/path.rs", "mithril-stm/src/membership_commitment/merkle_tree/mod.rs"]
PAD_INPUT = z3.IntVal(-7)


class Ctx:
    def __init__(self, prog, unroll=28):
        self.prog = prog
        self.I = MI.Interp(prog, models=[self.models, CM.map_models, CM.container_models, NM.num_models, MM.hof_models, MM.abs_models, MM.core_models], unroll=unroll, max_paths=100000)
        self.I.enum_tables.update(MM.ENUM_TABLE_EXTRA)
        Int = z3.IntSort()
        self.H1 = z3.Function("H1", Int, Int)
        self.H2 = z3.Function("H2", Int, Int, Int)
        self.H1inv = z3.Function("H1_inv", Int, Int)
        self.H2inv1 = z3.Function("H2_inv1", Int, Int)
        self.H2inv2 = z3.Function("H2_inv2", Int, Int)
        self.TAG = z3.Function("digest_tag", Int, Int)
        self.axioms = []

    def h1(self, st, x):
        t = self.H1(x)
        ax = z3.And(self.H1inv(t) == x, self.TAG(t) == 1)
        st.assume(ax)
        self.axioms.append(ax)
        return t

    def h2(self, st, a, b):
        t = self.H2(a, b)
        ax = z3.And(self.H2inv1(t) == a, self.H2inv2(t) == b, self.TAG(t) == 2)
        st.assume(ax)
        self.axioms.append(ax)
        return t

    def term_of(self, I, st, v):
        v = MM.deref_all(I, st, v)
        if isinstance(v, Abs):
            return v.term
        if isinstance(v, Agg) and v.kind in ("array", "vec") and len(v.fields) == 1:
            e = z3.simplify(v.fields[0]) if z3.is_expr(v.fields[0]) else None
            if e is not None and z3.is_int_value(e) and e.as_long() == 0:
                return PAD_INPUT
        raise Unencodable("digest input %r" % (v,))

    def models(self, I, st, caller, func, args, argtys, dest_ty):
        f = MM.strip_std_paths(func)
        if re.match(r"^<D as Digest>::new$", f):
            return MM.ret(st, Agg("hasher", None, ()))
        if re.match(r"^<D as (Digest|Update)>::(chain|chain_update)(::<|$)", f):
            h = args[0]
            return MM.ret(st, Agg("hasher", None, tuple(h.fields) + (self.term_of(I, st, args[1]),)))
        if re.match(r"^<D as (Digest|FixedOutput)>::(finalize|finalize_fixed)$", f):
            parts = args[0].fields
            if len(parts) == 2:
                return MM.ret(st, Abs("digest", self.h2(st, parts[0], parts[1])))
            if len(parts) == 1:
                return MM.ret(st, Abs("digest", self.h1(st, parts[0])))
            raise Unencodable("digest of %d chained inputs" % len(parts))
        if re.match(r"^<D as Digest>::digest::<", f):
            return MM.ret(st, Abs("digest", self.h1(st, self.term_of(I, st, args[0]))))
        if re.search(r"GenericArray<.*>::to_vec$|core::slice::<impl \[u8\]>::to_vec$|std::slice::<impl \[u8\]>::to_vec$", f) and isinstance(MM.deref_all(I, st, args[0]), Abs):
            return MM.ret(st, MM.deref_all(I, st, args[0]))
        if re.match(r"^<.*GenericArray<.*> as Deref>::deref$", f) or re.match(r"^<.* as Deref>::deref$", f) and isinstance(MM.deref_all(I, st, args[0]), Abs):
            return MM.ret(st, args[0])
        if re.search(r"MerkleTreeLeaf>::as_bytes_for_merkle_tree$", f):
            return MM.ret(st, MM.deref_all(I, st, args[0]))
        if re.search(r"MerkleBatchPath::<D>::to_bytes$", f):
            return MM.ret(st, EnumV("Result", 0, {0: (Opaque("bytes of the rejected proof"),)}))
        if re.match(r"^<.* as (Clone|ToOwned)>::(clone|to_owned)$", f):
            return MM.ret(st, MM.deref_all(I, st, args[0]))
        if re.match(r"^<Vec<.*> as Clone>::clone_from$", f):
            I.store(st, args[0], MM.deref_all(I, st, args[1]))
            return MM.ret(st, MI.UNIT)
        if re.match(r"^core::num::<impl usize>::next_power_of_two$", f):
            n = z3.simplify(args[0])
            if z3.is_int_value(n):
                v = n.as_long()
                p = 1
                while p < v:
                    p *= 2
                return MM.ret(st, z3.IntVal(p))
            # symbolic (lying) leaf count below 2^8: ite chain
            r = z3.IntVal(256)
            for e in range(7, -1, -1):
                r = z3.If(args[0] <= 2 ** e, z3.IntVal(2 ** e), r)
            st.assume(args[0] <= 256)
            return MM.ret(st, r)
        if re.match(r"^core::slice::<impl \[usize\]>::sort_unstable$", f):
            seq, ref = CM.seq_of(I, st, args[0])
            n = len(seq.fields)
            outs = []
            for perm in itertools.permutations(range(n)):
                vals = [seq.fields[p] for p in perm]
                cond = z3.And([vals[j] <= vals[j + 1] for j in range(n - 1)]) if n > 1 else z3.BoolVal(True)
                # canonical choice among equal elements: keep original relative order (stable) — any choice yields the same value sequence
                if I.feasible(st, cond):
                    s2 = st.fork()
                    s2.assume(cond)
                    I.store(s2, ref, Agg("vec", None, tuple(vals)))
                    outs.append(Outcome("return", MI.UNIT, s2))
                    if n <= 1:
                        break
            return outs
        if re.match(r"^Vec::<(usize|u64)>::dedup$", f):
            seq, ref = CM.seq_of(I, st, args[0])
            vals = list(seq.fields)
            outs = []
            for mask in itertools.product((False, True), repeat=max(0, len(vals) - 1)):
                cond = z3.And([(vals[j + 1] == vals[j]) if mask[j] else (vals[j + 1] != vals[j]) for j in range(len(mask))]) if mask else z3.BoolVal(True)
                if I.feasible(st, cond):
                    s2 = st.fork()
                    s2.assume(cond)
                    I.store(s2, ref, Agg("vec", None, tuple(vals[:1] + [vals[j + 1] for j in range(len(mask)) if not mask[j]])))
                    outs.append(Outcome("return", MI.UNIT, s2))
            return outs
        if re.match(r"^<Vec<.*> as DerefMut>::deref_mut$", f):
            return MM.ret(st, args[0])
        if re.match(r"^Vec::<.*>::remove$", f):
            seq, ref = CM.seq_of(I, st, args[0])
            i = z3.simplify(args[1])
            if not z3.is_int_value(i):
                raise Unencodable("Vec::remove with symbolic index")
            k = i.as_long()
            if k >= len(seq.fields):
                return MM.panic(st, "Vec::remove index out of bounds")
            v = seq.fields[k]
            I.store(st, ref, Agg("vec", None, tuple(seq.fields[:k]) + tuple(seq.fields[k + 1:])))
            return MM.ret(st, v)
        if re.match(r"^core::slice::<impl \[.*\]>::first$", f.replace("std::slice", "core::slice")):
            seq, ref = CM.seq_of(I, st, args[0])
            if not seq.fields:
                return MM.ret(st, MM.mk_option(False))
            if ref is None:
                I.frame_counter += 1
                st.mem[(I.frame_counter, 0)] = seq
                ref = Ref(I.frame_counter, 0, ())
            return MM.ret(st, MM.mk_option(True, Ref(ref.frame, ref.local, tuple(ref.projs) + (("constindex", 0, 0),))))
        m = re.match(r"^<Vec<(usize|u64)> as PartialEq>::(eq|ne)$", f)
        if m:
            a, _ = CM.seq_of(I, st, args[0])
            b, _ = CM.seq_of(I, st, args[1])
            if len(a.fields) != len(b.fields):
                r = z3.BoolVal(False)
            else:
                r = z3.And([x == y for x, y in zip(a.fields, b.fields)]) if a.fields else z3.BoolVal(True)
            return MM.ret(st, r if m.group(2) == "eq" else z3.Not(r))
        m = re.match(r"^<Vec<u8> as PartialEq>::(eq|ne)$", f)
        if m:
            a, b = MM.deref_all(I, st, args[0]), MM.deref_all(I, st, args[1])
            if isinstance(a, Abs) and isinstance(b, Abs):
                r = a.term == b.term
                return MM.ret(st, r if m.group(1) == "eq" else z3.Not(r))
        if re.match(r"^(alloc|std)::vec::from_elem::<", f):
            n = z3.simplify(args[1])
            if not z3.is_int_value(n):
                raise Unencodable("vec![x; n] with symbolic n")
            return MM.ret(st, Agg("vec", None, tuple([args[0]] * n.as_long())))
        if re.match(r"^<Range<usize> as Iterator>::rev$", f):
            rng = args[0]
            a, b = z3.simplify(rng.fields[0]), z3.simplify(rng.fields[1])
            if not (z3.is_int_value(a) and z3.is_int_value(b)):
                raise Unencodable("rev of a symbolic range")
            return MM.ret(st, CM.mk_iter(Agg("vec", None, tuple(z3.IntVal(x) for x in range(b.as_long() - 1, a.as_long() - 1, -1))), 0, "own"))
        if re.match(r"^<Rev<Range<usize>> as IntoIterator>::into_iter$", f):
            return MM.ret(st, args[0])
        if re.match(r"^core::panicking::(assert_failed|panic)", f):
            return MM.panic(st, "panic/assert: " + f[-40:])
        if re.search(r"MerkleTreeBatchCommitment::<.*>::new$|MerkleBatchPath::<.*>::new$", f):
            return None
        if "PhantomData" in f or re.match(r"^<.* as Default>::default$", f):
            return MM.ret(st, Opaque("phantom"))
        return None


def build_tree(ctx, prog, n, tag):
    """run the real MerkleTree::new on n symbolic leaves; returns (leaf terms, tree value, state)"""
    I = ctx.I
    leaves = [Abs("leaf", z3.Int("leaf_%s_%d" % (tag, i))) for i in range(n)]
    f_new = prog.find_one(r"merkle_tree/tree\.rs.*>::new$", nparams=1)
    st = MI.State()
    I.frame_counter += 1
    lf = I.frame_counter
    st.mem[(lf, 0)] = Agg("vec", None, tuple(leaves))
    outs = [o for o in I.call_fn(f_new, [Ref(lf, 0, ())], st)]
    rets = [o for o in outs if o.kind == "return"]
    if len(rets) != 1:
        raise Unencodable("MerkleTree::new(%d leaves): %d returning paths (%s)" % (n, len(rets), [o.msg for o in outs if o.kind != "return"][:2]))
    return leaves, rets[0].value, rets[0].state


def forge_spec(ctx, model, n, leaves, claimed, idx, vals, depth):
    """turn a soundness counterexample into a concrete forgery for the native replay: which claimed leaves are committed ones,
    and what every path value is in terms of the digest function (closure of H over the leaves, bounded by the tree depth)"""
    ev = lambda t: model.eval(t, model_completion=True)
    code = lambda t: ev(t).as_long()
    leafcodes = {}
    for i, l_ in enumerate(leaves):
        leafcodes.setdefault(code(l_.term), {"L": i})
    claims = []
    fakes = {}
    for t, c_ in enumerate(claimed):
        cc = code(c_.term)
        if cc in leafcodes:
            claims.append(leafcodes[cc])
        else:
            fakes.setdefault(cc, {"F": len(fakes)})
            claims.append(fakes[cc])
    known = {}
    for cc, e in list(leafcodes.items()) + list(fakes.items()):
        known.setdefault(code(ctx.H1(z3.IntVal(cc))), e)
    known.setdefault(code(ctx.H1(PAD_INPUT)), "P")
    wanted = [code(v.term) for v in vals]
    for _ in range(depth):
        if all(w in known for w in wanted) or len(known) > 60:
            break
        items = list(known.items())
        for a, ea in items:
            for b, eb in items:
                known.setdefault(code(ctx.H2(z3.IntVal(a), z3.IntVal(b))), {"h2": [ea, eb]})
    junk = {}
    values = []
    for w in wanted:
        if w in known:
            values.append(known[w])
        else:
            junk.setdefault(w, {"J": len(junk)})
            values.append(junk[w])
    return {"n": n, "claims": claims, "indices": [code(x) for x in idx], "values": values}


def call1(ctx, f, args, st, what):
    outs = ctx.I.call_fn(f, args, st)
    rets = [o for o in outs if o.kind == "return"]
    if len(rets) != 1 or len(outs) != 1:
        raise Unencodable("%s: %d paths / %d returning (%s)" % (what, len(outs), len(rets), [o.msg for o in outs if o.kind != "return"][:2]))
    return rets[0]


def run(tier, seed):
    rep = core.Report("C09", tier, seed)
    rep.trusted_base = ["rustc nightly MIR", "mir2smt interpreter + container/digest call models", "z3"]
    rep.functions = ["source hashes: %s" % core.source_hashes(SRC)]
    NMAX = 3 if tier == "quick" else 5
    IDXB = 16 if tier == "quick" else 64
    rep.bounds = {"tree_sizes": "1..%d" % NMAX, "claimed_leaves": "1..2", "path_values": "0..depth+1", "attacker_index_bound": IDXB, "loop_unroll": 28}
    rep.assumptions = [
        "the digest is collision resistant: H(x) and H(a||b) are injective uninterpreted functions with disjoint ranges (leaf encodings, the 1-byte padding input and two concatenated digests have different lengths)",
        "no leaf encoding equals the padding input (the single byte 0x00): deployed leaves are 104 bytes long",
        "leaf encoding (as_bytes_for_merkle_tree) is injective: a leaf is identified with its bytes (for the deployed leaf type: 96-byte key || 8-byte stake)",
        "attacker-chosen indices in the soundness runs are below %d (larger indices only make the verification loop longer; the no-overflow obligation covers all of usize)" % IDXB,
        "Vec / iterator / sort semantics per std contract (mir2smt/container_models.py)",
    ]
    rep.outside = ["internal/mithril-merkle-tree (MKProof, MKMapProof): ckb-merkle-mountain-range over HashMap-backed stores behind Arc<RwLock>, concrete Blake2s256",
                   "trees larger than %d leaves, more than 2 claimed leaves" % NMAX, "MerklePath (single-leaf path of the SNARK tree, future_snark)"]
    rep.solver_vars = ["every honest leaf (so equal leaves at two positions are included)", "every claimed leaf", "every path node value", "every proof index (attacker chosen)",
                       "the commitment's leaf count in the lying-count runs"]
    try:
        path, dt = mir.dump("mithril-stm")
    except Exception as e:
        rep.inconcl("MIR dump failed: %s" % e)
        return rep.finish()
    prog = MI.Program(open(path).read(), source_root=os.path.join(core.REPO, "mithril-stm"))
    tmo = 120 if tier == "quick" else 600
    failures = []
    try:
        f_commit = prog.find_one(r"merkle_tree/tree\.rs.*>::to_merkle_tree_batch_commitment$")
        f_path = prog.find_one(r"merkle_tree/tree\.rs.*>::compute_merkle_tree_batch_path$")
        f_verify = prog.find_one(r"merkle_tree/commitment\.rs.*>::verify_leaves_membership_from_batch_path$")
        from mir2smt import symval
        db = symval.TypeDB([os.path.join(core.REPO, "mithril-stm", "src")])
        bp_fields = [n_ for n_, t_ in db.struct_fields("MerkleBatchPath")]
        for n in range(1, NMAX + 1):
            ctx = Ctx(prog)
            I = ctx.I
            leaves, tree, st0 = build_tree(ctx, prog, n, "n%d" % n)
            I.frame_counter += 1
            tf = I.frame_counter
            st0.mem[(tf, 0)] = tree
            com = call1(ctx, f_commit, [Ref(tf, 0, ())], st0, "to_merkle_tree_batch_commitment")
            commitment, st1 = com.value, com.state
            # ---- completeness: every non-empty index subset --------------------------------------------------------------
            nsub = 0
            okall = True
            for r_ in range(1, n + 1):
                for subset in itertools.combinations(range(n), r_):
                    nsub += 1
                    s = st1.fork()
                    p = call1(ctx, f_path, [Ref(tf, 0, ()), Agg("vec", None, tuple(z3.IntVal(i) for i in subset))], s, "compute_merkle_tree_batch_path%s" % (subset,))
                    s2 = p.state
                    I.frame_counter += 1
                    fr = I.frame_counter
                    s2.mem[(fr, 0)] = commitment
                    s2.mem[(fr, 1)] = Agg("vec", None, tuple(leaves[i] for i in subset))
                    s2.mem[(fr, 2)] = p.value
                    outs = I.call_fn(f_verify, [Ref(fr, 0, ()), Ref(fr, 1, ()), Ref(fr, 2, ())], s2)
                    for o in outs:
                        feasible = smt.check(list(o.pc), timeout_s=tmo).status != "unsat"
                        if not feasible:
                            continue
                        good = o.kind == "return" and o.value.discr == 0
                        if not good:
                            okall = False
                            failures.append(("completeness", n, subset, None, "generated proof for leaves %s of a %d-leaf tree does not verify (%s)" % (subset, n, o.kind)))
            ob = rep.add(core.Obligation("c09_complete_n%d" % n, "smt", "n=%d: the generated batch proof of every non-empty index subset verifies, for all leaf contents" % n, {"vccs": nsub}))
            ob.status = "discharged" if okall else "failed"
            # ---- soundness: arbitrary claimed leaves, indices and path values ------------------------------------------------
            depth = max(1, (n - 1).bit_length())
            shapes = [(1, 1), (2, 2), (2, 1), (1, 2)] + ([] if tier == "quick" else [(3, 3), (3, 2), (3, 1), (2, 3), (1, 0), (0, 1)])
            for nclaim, nidx in shapes:
                if min(nclaim, nidx) > n + 1:
                    continue
                for nvals in range(0, depth + 2):
                    claimed = [Abs("leaf", z3.Int("claimed_%d" % t)) for t in range(nclaim)]
                    idx = [z3.Int("index_%d" % t) for t in range(nidx)]
                    vals = [Abs("digest", z3.Int("path_value_%d" % t)) for t in range(nvals)]
                    s = st1.fork()
                    for x in idx:
                        s.assume(z3.And(x >= 0, x < IDXB))
                    for c_ in claimed + leaves:
                        s.assume(c_.term != PAD_INPUT)
                    fieldvals = {"values": Agg("vec", None, tuple(vals)), "indices": Agg("vec", None, tuple(idx)), "hasher": Opaque("phantom")}
                    proof = Agg("adt", "MerkleBatchPath", tuple(fieldvals[k] for k in bp_fields))
                    I.frame_counter += 1
                    fr = I.frame_counter
                    s.mem[(fr, 0)] = commitment
                    s.mem[(fr, 1)] = Agg("vec", None, tuple(claimed))
                    s.mem[(fr, 2)] = proof
                    outs = I.call_fn(f_verify, [Ref(fr, 0, ()), Ref(fr, 1, ()), Ref(fr, 2, ())], s)
                    acc, pan, exh = [], [], []
                    for o in outs:
                        if o.kind == "panic":
                            pan.append(o)
                        elif o.kind == "exhausted":
                            exh.append(o)
                        elif o.value.discr == 0:
                            acc.append(o)
                    name = "c09_sound_n%d_claims%d_idx%d_values%d" % (n, nclaim, nidx, nvals) if nclaim != nidx else "c09_sound_n%d_claims%d_values%d" % (n, nclaim, nvals)
                    ob = rep.add(core.Obligation(name, "smt", "n=%d, %d claimed leaves, %d indices, %d path values: accept => as many leaves as indices, indices strictly increasing, < n, and claimed[t] = leaves[index[t]]" % (n, nclaim, nidx, nvals),
                                                 {"vccs": len(acc), "paths": len(outs)}))
                    goodc = [z3.BoolVal(nclaim == nidx)]
                    for t in range(min(nclaim, nidx)):
                        goodc.append(z3.Or([z3.And(idx[t] == i, claimed[t].term == leaves[i].term) for i in range(n)]))
                    for t in range(nidx - 1):
                        goodc.append(idx[t] < idx[t + 1])
                    status = "discharged"
                    for o in acc:
                        r = smt.check(list(o.pc) + [z3.Not(z3.And(goodc))], timeout_s=tmo)
                        ob.solver_s += r.seconds
                        if r.status == "sat":
                            status = "failed"
                            md = smt.model_to_dict(r.model)
                            ob.counterexample = {k_: v for k_, v in md.items() if k_.startswith(("index_", "claimed_", "leaf_", "path_value_"))}
                            r2 = smt.check(list(o.pc) + [z3.Not(z3.And(goodc)), z3.Distinct([l_.term for l_ in leaves])] if n > 1 else list(o.pc) + [z3.Not(z3.And(goodc))], timeout_s=tmo)
                            mdl = r2.model if r2.status == "sat" else r.model
                            failures.append(("soundness", n, (nclaim, nidx, nvals), mdl, str(ob.counterexample), forge_spec(ctx, mdl, n, leaves, claimed, idx, vals, depth)))
                            break
                        if r.status != "unsat":
                            status = "inconclusive"
                            rep.inconcl("%s: %s" % (name, r.reason))
                    ob.status = status
                    if exh:
                        rep.inconcl("%s: %d paths exhausted the loop bound" % (name, len(exh)))
                    # no panic on attacker input
                    obp = rep.add(core.Obligation(name.replace("sound", "nopanic"), "smt", "same inputs: the verifier does not panic", {"vccs": len(pan)}))
                    st_p = "discharged"
                    for o in pan:
                        r = smt.check(list(o.pc), timeout_s=tmo)
                        if r.status == "sat":
                            st_p = "failed"
                            obp.counterexample = {"panic": o.msg[:120], "model": {k_: v for k_, v in smt.model_to_dict(r.model).items() if k_.startswith("index_")}}
                            failures.append(("panic", n, (nclaim, nvals), r.model, o.msg[:120]))
                            break
                    obp.status = st_p
            # empty proof (no claimed leaves, no indices): must be rejected without panic
            s = st1.fork()
            fieldvals = {"values": Agg("vec", None, ()), "indices": Agg("vec", None, ()), "hasher": Opaque("phantom")}
            I.frame_counter += 1
            fr = I.frame_counter
            s.mem[(fr, 0)] = commitment
            s.mem[(fr, 1)] = Agg("vec", None, ())
            s.mem[(fr, 2)] = Agg("adt", "MerkleBatchPath", tuple(fieldvals[k] for k in bp_fields))
            outs = I.call_fn(f_verify, [Ref(fr, 0, ()), Ref(fr, 1, ()), Ref(fr, 2, ())], s)
            ob = rep.add(core.Obligation("c09_empty_proof_n%d" % n, "smt", "n=%d: a proof with no indices and no leaves is rejected without panicking" % n))
            bad = [o for o in outs if o.kind == "panic" or (o.kind == "return" and o.value.discr == 0)]
            ob.status = "discharged" if not bad else "failed"
            if bad:
                ob.counterexample = {"outcome": bad[0].kind, "msg": bad[0].msg[:120]}
                failures.append(("empty_proof", n, (), None, bad[0].kind + " " + bad[0].msg[:100]))
        # ---- completeness on larger trees (padding nodes, empty subtrees): selected index sets only -----------------------------------
        for n in range(NMAX + 1, (6 if tier == "quick" else 9) + 1):
            ctx = Ctx(prog)
            I = ctx.I
            leaves, tree, st0 = build_tree(ctx, prog, n, "big%d" % n)
            I.frame_counter += 1
            tf = I.frame_counter
            st0.mem[(tf, 0)] = tree
            com = call1(ctx, f_commit, [Ref(tf, 0, ())], st0, "to_merkle_tree_batch_commitment")
            commitment, st1 = com.value, com.state
            subsets = {tuple(range(n))} | {tuple(j for j in range(n) if j != i) for i in range(n)} | {(i,) for i in range(n)} | {(i, n - 1) for i in range(n - 1)}
            okall = True
            for subset in sorted(subsets):
                s = st1.fork()
                p = call1(ctx, f_path, [Ref(tf, 0, ()), Agg("vec", None, tuple(z3.IntVal(i) for i in subset))], s, "compute_merkle_tree_batch_path%s" % (subset,))
                s2 = p.state
                I.frame_counter += 1
                fr = I.frame_counter
                s2.mem[(fr, 0)] = commitment
                s2.mem[(fr, 1)] = Agg("vec", None, tuple(leaves[i] for i in subset))
                s2.mem[(fr, 2)] = p.value
                for o in I.call_fn(f_verify, [Ref(fr, 0, ()), Ref(fr, 1, ()), Ref(fr, 2, ())], s2):
                    if smt.check(list(o.pc), timeout_s=tmo).status == "unsat":
                        continue
                    if not (o.kind == "return" and o.value.discr == 0):
                        okall = False
                        failures.append(("completeness", n, subset, None, "generated proof for leaves %s of a %d-leaf tree does not verify (%s)" % (subset, n, o.kind)))
            ob = rep.add(core.Obligation("c09_complete_selected_sets_n%d" % n, "smt",
                                         "n=%d: the generated batch proof verifies for the full leaf set, every all-but-one set, every single leaf and every pair with the last leaf, for all leaf contents" % n, {"vccs": len(subsets)}))
            ob.status = "discharged" if okall else "failed"
        rep.functions += sorted(set("%s -> %s" % (a, b) for a, b in ctx.I.calls_seen.items() if b.startswith("mir:")))
        # ---- index arithmetic cannot overflow: indices over all of usize, one claimed leaf, tree of 2 leaves ----------------------
        ctx = Ctx(prog, unroll=4)
        I = ctx.I
        leaves, tree, st0 = build_tree(ctx, prog, 2, "ovf")
        I.frame_counter += 1
        tf = I.frame_counter
        st0.mem[(tf, 0)] = tree
        com = call1(ctx, f_commit, [Ref(tf, 0, ())], st0, "commitment")
        x = z3.Int("index_0")
        s = com.state.fork()
        s.assume(z3.And(x >= 0, x < 2 ** 64))
        fieldvals = {"values": Agg("vec", None, ()), "indices": Agg("vec", None, (x,)), "hasher": Opaque("phantom")}
        I.frame_counter += 1
        fr = I.frame_counter
        s.mem[(fr, 0)] = com.value
        s.mem[(fr, 1)] = Agg("vec", None, (Abs("leaf", z3.Int("claimed_0")),))
        s.mem[(fr, 2)] = Agg("adt", "MerkleBatchPath", tuple(fieldvals[k] for k in bp_fields))
        outs = I.call_fn(f_verify, [Ref(fr, 0, ()), Ref(fr, 1, ()), Ref(fr, 2, ())], s)
        ob = rep.add(core.Obligation("c09_index_arithmetic_no_overflow", "smt", "an attacker-chosen proof index over all of usize never makes the verifier's index arithmetic overflow (panic)"))
        ob.status = "discharged"
        for o in outs:
            if o.kind == "panic":
                r = smt.check(list(o.pc), timeout_s=tmo)
                if r.status == "sat":
                    ob.status = "failed"
                    ob.counterexample = {"index": r.model.eval(x, model_completion=True).as_long(), "panic": o.msg[:140]}
                    failures.append(("index_overflow", 2, (), r.model, str(ob.counterexample)))
                    break
    except Unencodable as e:
        rep.inconcl("unencodable: %s" % e)
    # ---- replay ---------------------------------------------------------------------------------------------------------
    seen = set()
    k = 0
    for fl in failures:
        clause, n, shape, model, what = fl[:5]
        spec = fl[5] if len(fl) > 5 else None
        role = "c09-" + clause
        if role in seen:
            continue
        seen.add(role)
        k += 1
        native = {}
        reproduced = False
        try:
            from checks.c01 import native_stm
            if clause == "index_overflow":
                native["merkle_index_overflow"] = native_stm("merkle_index_overflow")
                reproduced = native["merkle_index_overflow"].startswith("panic")
            elif clause == "empty_proof":
                native["merkle_empty_proof"] = native_stm("merkle_empty_proof")
                reproduced = native["merkle_empty_proof"].startswith("panic") or native["merkle_empty_proof"].startswith("accepted")
            elif clause in ("soundness", "completeness", "panic"):
                if spec is not None:
                    import json
                    native["merkle_forge_spec"] = spec
                    native["merkle_forge"] = native_stm("merkle_forge", json.dumps(spec))
                    reproduced = "control=ok" in native["merkle_forge"] and "forged=accepted" in native["merkle_forge"]
                if not reproduced and clause == "completeness":
                    native["merkle_full_set"] = native_stm("merkle_full_set")
                    reproduced = "VIOLATED" in native["merkle_full_set"]
                if not reproduced:
                    native["merkle_battery"] = native_stm("merkle_battery")
                    reproduced = "VIOLATED" in native["merkle_battery"]
        except Exception as e:
            native["error"] = str(e)
        path = core.write_replay("C09", k, {"property": "C09", "role": role, "n": n, "shape": shape, "what": what, "native_replay": native})
        rep.violation(role, "%s (n=%s %s): %s; native %s" % (clause, n, shape, what[:200], native), path, reproduced)
        if reproduced:
            rep.traces_validated += 1
    return rep.finish()
