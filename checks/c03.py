"""C03 — certificate chain verification accepts only chains anchored in the genesis key (link predicate).

Engine B: the MIR of `MithrilCertificateVerifier::verify_standard_certificate` (the async body), of the eight
synchronous checks it calls and of `verify_genesis_certificate` is executed symbolically on two arbitrary
certificates.  Strings, keys, signatures and parameter sets are elements of uninterpreted sorts (only equality
observes them); hashes, decoders and signature verification are uninterpreted functions of their arguments.
"""
import os
import re

import z3

from lib import core, mir, smt
from mir2smt import interp as MI
from mir2smt import models as MM
from mir2smt import symval
from mir2smt.interp import Abs, Agg, EnumV, Ref, Opaque, Outcome, Unencodable

SRC = ["mithril-common/src/certificate_chain/certificate_verifier.rs", "mithril-common/src/entities/certificate.rs",
       "mithril-common/src/entities/epoch.rs", "mithril-common/src/entities/protocol_message.rs"]

ABSTRACT = {
    r"String": "str",
    r"ProtocolKey<.*>|ProtocolAggregateVerificationKey.*|ProtocolMultiSignature|ProtocolGenesisSignature|GenesisEd25519Signature|ProtocolAncillary.*Data|ProtocolGenesisVerificationKey": "key",
    r"ProtocolMessage": "pmsg",
    r"ProtocolParameters": "params",
    r"DateTime<Utc>|Vec<StakeDistributionParty>|CardanoDbBeacon": "opaque",
}


def flatten(v, out):
    if isinstance(v, Abs):
        out.append(v.term)
    elif isinstance(v, (Agg,)):
        for f in v.fields:
            flatten(f, out)
    elif isinstance(v, EnumV):
        out.append(v.discr if z3.is_expr(v.discr) else z3.IntVal(v.discr))
        for k in sorted(v.payloads, key=str):
            for f in v.payloads[k]:
                flatten(f, out)
    elif z3.is_expr(v):
        out.append(z3.If(v, 1, 0) if z3.is_bool(v) else v)
    return out


class Ctx:
    def __init__(self, prog):
        self.prog = prog
        self.I = MI.Interp(prog, models=[self.models, MM.hof_models, MM.abs_models, MM.core_models], unroll=4)
        self.I.enum_tables.update(MM.ENUM_TABLE_EXTRA)
        self.I.enum_tables["AggregateSignatureType"] = ["Concatenation"]
        self.db = symval.TypeDB([os.path.join(core.REPO, "mithril-common", "src")])
        Int, Bool = z3.IntSort(), z3.BoolSort()
        self.PMH = z3.Function("protocol_message_hash", Int, Int)
        self.HAS = z3.Function("pm_has_part", Int, Int, Bool)
        self.PART = z3.Function("pm_part", Int, Int, Int)
        self.EPSTR = z3.Function("epoch_to_string", Int, Int)
        self.EPINV = z3.Function("epoch_of_string", Int, Int)
        self.DECOK = z3.Function("avk_decodes", Int, Bool)
        self.DEC = z3.Function("avk_decode", Int, Int)
        self.PPH = z3.Function("params_hash", Int, Int)
        self.PPINV = z3.Function("params_of_hash", Int, Int)
        self.MSIG = z3.Function("multi_signature_valid", Int, Int, Int, Int, Bool)
        self.GSIG = z3.Function("genesis_signature_valid", Int, Int, Bool)
        self.CH = None
        self.keytbl = None

    def cert(self, prefix):
        sb = symval.SymBuilder(self.db, self.I, abstract=ABSTRACT)
        c = sb.make("Certificate", prefix)
        return c, sb

    def content_hash(self, cert):
        """uninterpreted function of everything in the certificate but its `hash` field (index 0)"""
        terms = []
        for f in cert.fields[1:]:
            flatten(f, terms)
        if self.CH is None or self.CH.arity() != len(terms):
            self.CH = z3.Function("certificate_content_hash_%d" % len(terms), *([z3.IntSort()] * len(terms) + [z3.IntSort()]))
        return self.CH(*terms)

    # -- property specific call models ---------------------------------------------------------
    def models(self, I, st, caller, func, args, argtys, dest_ty):
        f = MM.strip_std_paths(func)
        seg = f.split("::")[-1]
        if re.search(r"Certificate::try_compute_hash$", f):
            c = MM.deref_all(I, st, args[0])
            return MM.ret(st, EnumV("Result", 0, {0: (Abs("str", self.content_hash(c)),)}))
        if re.search(r"ProtocolMessage::compute_hash$", f):
            pm = MM.deref_all(I, st, args[0])
            return MM.ret(st, Abs("str", self.PMH(pm.term)))
        if re.search(r"ProtocolMessage::get_message_part$", f):
            pm = MM.deref_all(I, st, args[0])
            key = MM.deref_all(I, st, args[1])
            if not isinstance(key, EnumV) or not isinstance(key.discr, int):
                raise Unencodable("symbolic message part key")
            k = z3.IntVal(key.discr)
            I.frame_counter += 1
            fr = I.frame_counter
            st.mem[(fr, 0)] = Abs("str", self.PART(pm.term, k))
            return MM.ret(st, EnumV("Option", z3.If(self.HAS(pm.term, k), 1, 0), {1: (Ref(fr, 0, ()),)}))
        if re.match(r"^<(\w+::)*Epoch as ToString>::to_string$", f) or re.match(r"^<(\w+::)*Epoch as (std::string::)?ToString>::to_string$", func):
            e = MM.deref_all(I, st, args[0])
            ev = e.fields[0]
            st.assume(self.EPINV(self.EPSTR(ev)) == ev)
            return MM.ret(st, Abs("str", self.EPSTR(ev)))
        if re.search(r"MithrilCertificateVerifier::verify_multi_signature$", f):
            msg = MM.deref_all(I, st, args[1])
            sig = MM.deref_all(I, st, args[2])
            avk = MM.deref_all(I, st, args[3])
            pp = MM.deref_all(I, st, args[4])
            for x in (msg, sig, avk, pp):
                if not isinstance(x, Abs):
                    raise Unencodable("verify_multi_signature argument is not abstract: %r" % (x,))
            ok = self.MSIG(msg.term, sig.term, avk.term, pp.term)
            st.trace = st.trace + (("verify_multi_signature", (msg.term, sig.term, avk.term, pp.term), ok),)
            return MM.ret(st, EnumV("Result", z3.If(ok, 0, 1), {0: (MI.UNIT,), 1: (Opaque("CertificateVerifierError"),)}))
        if re.search(r"String::as_bytes$|String::as_str$|<String as Deref>::deref$|String::as_ref$", f):
            return MM.ret(st, args[0] if isinstance(args[0], Ref) else args[0])
        if re.match(r"^<.* as (Clone|ToOwned)>::(clone|to_owned)$", f):
            return MM.ret(st, MM.deref_all(I, st, args[0]))
        if re.search(r"ProtocolKey::<.*>::into_inner$|ProtocolKey::<.*>::new$", f) and isinstance(MM.deref_all(I, st, args[0]), Abs):
            return MM.ret(st, MM.deref_all(I, st, args[0]))
        m = re.match(r"^<(.*) as TryFrom<&str>>::try_from$", f)
        if m and "AggregateVerificationKey" in m.group(1) or (m and "ProtocolKey" in m.group(1)):
            s = MM.deref_all(I, st, args[0])
            return MM.ret(st, EnumV("Result", z3.If(self.DECOK(s.term), 0, 1), {0: (Abs("key", self.DEC(s.term)),), 1: (Opaque("error"),)}))
        if re.search(r"ProtocolParameters::compute_hash$", f):
            pp = MM.deref_all(I, st, args[0])
            st.assume(self.PPINV(self.PPH(pp.term)) == pp.term)
            return MM.ret(st, Abs("str", self.PPH(pp.term)))
        if re.search(r"Into<(\w+::)*AggregateSignatureType>>::into$|AggregateSignatureType as From<.*>>::from$", f):
            # default features: the Concatenation proof system is the only variant
            return MM.ret(st, EnumV("AggregateSignatureType", 0, {}))
        lastseg = MI.last_segment(f)[0]
        if lastseg in ("new", "from", "into", "into_inner", "to_owned", "clone", "deref", "as_ref", "borrow") and len(args) == 1:
            a0 = MM.deref_all(I, st, args[0])
            if isinstance(a0, Abs) and a0.sort == "key":
                return MM.ret(st, a0)  # wrappers / conversions keep the key's identity
        m = re.match(r"^<(.*) as (Into|From)<.*>>::(into|from)$", f)
        if m and len(args) == 1 and isinstance(args[0], Abs) and args[0].sort == "key":
            return MM.ret(st, args[0])  # key wrapper conversions keep the key's identity
        if re.search(r"to_ed25519_verification_key$", f):
            return MM.ret(st, Abs("key", z3.Int("genesis_verification_key")))
        if re.search(r"(Ed25519VerificationKey|VerifyingKey|ProtocolKey<.*>|ProtocolGenesisVerificationKey)(::<.*>)?::verify$", f) or re.search(r"GenesisVerificationKey.*::verify$", f):
            vk = MM.deref_all(I, st, args[0])
            msg = MM.deref_all(I, st, args[1])
            sig = MM.deref_all(I, st, args[2])
            ok = self.GSIG(msg.term, sig.term)
            st.trace = st.trace + (("verify_genesis_signature", (msg.term, sig.term, vk.term if isinstance(vk, Abs) else None), ok),)
            return MM.ret(st, EnumV("Result", z3.If(ok, 0, 1), {0: (MI.UNIT,), 1: (Opaque("error"),)}))
        return None

    def make_coroutine_call(self, fname_regex, upvars):
        body = self.prog.find_one(fname_regex)
        st = MI.State()
        co = EnumV("coroutine", 0, {"upvars": tuple(upvars)})
        self.I.frame_counter += 1
        fr = self.I.frame_counter
        st.mem[(fr, 0)] = co
        pin = Agg("adt", "Pin", (Ref(fr, 0, (), True),))
        return body, st, [pin, Opaque("Context")]

    def run_standard(self):
        c, sbc = self.cert("cert")
        p, sbp = self.cert("prev")
        self.c, self.p, self.sbc, self.sbp = c, p, sbc, sbp
        body, st, args = self.make_coroutine_call(r"::verify_standard_certificate::\{closure#0\}$", [])
        for k in sbc.constraints + sbp.constraints:
            st.assume(k)
        fr = self.I.frame_counter + 1
        self.I.frame_counter += 3
        st.mem[(fr, 0)] = Agg("adt", "MithrilCertificateVerifier", (Opaque("logger"), Opaque("retriever"), Opaque("genesis_verifier")))
        st.mem[(fr + 1, 0)] = c
        st.mem[(fr + 2, 0)] = p
        co = st.mem[(args[0].fields[0].frame, 0)]
        st.mem[(args[0].fields[0].frame, 0)] = EnumV("coroutine", 0, {"upvars": (Ref(fr, 0, ()), Ref(fr + 1, 0, ()), Ref(fr + 2, 0, ()))})
        return self.I.call_fn(body, args, st)
