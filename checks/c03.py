"""C03 — certificate chain verification accepts only chains anchored in the genesis key (link predicate).

Engine B: the MIR of `MithrilCertificateVerifier::verify_standard_certificate` (the async body), of the eight
synchronous checks it calls and of `verify_genesis_certificate` is executed symbolically on two arbitrary
certificates.  Strings, keys, signatures and parameter sets are elements of uninterpreted sorts (only equality
observes them); hashes, decoders and signature verification are uninterpreted functions of their arguments.
"""
import os
import re

import z3

from lib import core, mir, smt
from mir2smt import interp as MI
from mir2smt import models as MM
from mir2smt import symval
from mir2smt.interp import Abs, Agg, EnumV, Ref, Opaque, Outcome, Unencodable

SRC = ["mithril-common/src/certificate_chain/certificate_verifier.rs", "mithril-common/src/entities/certificate.rs",
       "mithril-common/src/entities/epoch.rs", "mithril-common/src/entities/protocol_message.rs"]

ABSTRACT = {
    r"String": "str",
    r"ProtocolKey<.*>|ProtocolAggregateVerificationKey.*|ProtocolMultiSignature|ProtocolGenesisSignature|GenesisEd25519Signature|ProtocolAncillary.*Data|ProtocolGenesisVerificationKey": "key",
    r"ProtocolMessage": "pmsg",
    r"ProtocolParameters": "params",
    r"DateTime<Utc>|Vec<StakeDistributionParty>|CardanoDbBeacon": "opaque",
}


def flatten(v, out):
    if isinstance(v, Abs):
        out.append(v.term)
    elif isinstance(v, (Agg,)):
        for f in v.fields:
            flatten(f, out)
    elif isinstance(v, EnumV):
        out.append(v.discr if z3.is_expr(v.discr) else z3.IntVal(v.discr))
        for k in sorted(v.payloads, key=str):
            for f in v.payloads[k]:
                flatten(f, out)
    elif z3.is_expr(v):
        out.append(z3.If(v, 1, 0) if z3.is_bool(v) else v)
    return out


class Ctx:
    def __init__(self, prog):
        self.prog = prog
        self.I = MI.Interp(prog, models=[self.models, MM.hof_models, MM.abs_models, MM.core_models], unroll=4)
        self.I.enum_tables.update(MM.ENUM_TABLE_EXTRA)
        self.I.enum_tables["AggregateSignatureType"] = ["Concatenation"]
        self.db = symval.TypeDB([os.path.join(core.REPO, "mithril-common", "src")])
        Int, Bool = z3.IntSort(), z3.BoolSort()
        self.PMH = z3.Function("protocol_message_hash", Int, Int)
        self.HAS = z3.Function("pm_has_part", Int, Int, Bool)
        self.PART = z3.Function("pm_part", Int, Int, Int)
        self.EPSTR = z3.Function("epoch_to_string", Int, Int)
        self.EPINV = z3.Function("epoch_of_string", Int, Int)
        self.DECOK = z3.Function("avk_decodes", Int, Bool)
        self.DEC = z3.Function("avk_decode", Int, Int)
        self.PPH = z3.Function("params_hash", Int, Int)
        self.PPINV = z3.Function("params_of_hash", Int, Int)
        self.MSIG = z3.Function("multi_signature_valid", Int, Int, Int, Int, Bool)
        self.GSIG = z3.Function("genesis_signature_valid", Int, Int, Bool)
        self.CH = None
        self.keytbl = None

    def cert(self, prefix):
        sb = symval.SymBuilder(self.db, self.I, abstract=ABSTRACT)
        c = sb.make("Certificate", prefix)
        return c, sb

    def content_hash(self, cert):
        """uninterpreted function of everything in the certificate but its `hash` field (index 0)"""
        terms = []
        for f in cert.fields[1:]:
            flatten(f, terms)
        if self.CH is None or self.CH.arity() != len(terms):
            self.CH = z3.Function("certificate_content_hash_%d" % len(terms), *([z3.IntSort()] * len(terms) + [z3.IntSort()]))
        return self.CH(*terms)

    # -- property specific call models ---------------------------------------------------------
    def models(self, I, st, caller, func, args, argtys, dest_ty):
        f = MM.strip_std_paths(func)
        seg = f.split("::")[-1]
        if re.search(r"Certificate::try_compute_hash$", f):
            c = MM.deref_all(I, st, args[0])
            return MM.ret(st, EnumV("Result", 0, {0: (Abs("str", self.content_hash(c)),)}))
        if re.search(r"ProtocolMessage::compute_hash$", f):
            pm = MM.deref_all(I, st, args[0])
            return MM.ret(st, Abs("str", self.PMH(pm.term)))
        if re.search(r"ProtocolMessage::get_message_part$", f):
            pm = MM.deref_all(I, st, args[0])
            key = MM.deref_all(I, st, args[1])
            if not isinstance(key, EnumV) or not isinstance(key.discr, int):
                raise Unencodable("symbolic message part key")
            k = z3.IntVal(key.discr)
            I.frame_counter += 1
            fr = I.frame_counter
            st.mem[(fr, 0)] = Abs("str", self.PART(pm.term, k))
            return MM.ret(st, EnumV("Option", z3.If(self.HAS(pm.term, k), 1, 0), {1: (Ref(fr, 0, ()),)}))
        if re.match(r"^<(\w+::)*Epoch as ToString>::to_string$", f) or re.match(r"^<(\w+::)*Epoch as (std::string::)?ToString>::to_string$", func):
            e = MM.deref_all(I, st, args[0])
            ev = e.fields[0]
            st.assume(self.EPINV(self.EPSTR(ev)) == ev)
            return MM.ret(st, Abs("str", self.EPSTR(ev)))
        if re.search(r"MithrilCertificateVerifier::verify_multi_signature$", f):
            msg = MM.deref_all(I, st, args[1])
            sig = MM.deref_all(I, st, args[2])
            avk = MM.deref_all(I, st, args[3])
            pp = MM.deref_all(I, st, args[4])
            for x in (msg, sig, avk, pp):
                if not isinstance(x, Abs):
                    raise Unencodable("verify_multi_signature argument is not abstract: %r" % (x,))
            ok = self.MSIG(msg.term, sig.term, avk.term, pp.term)
            st.trace = st.trace + (("verify_multi_signature", (msg.term, sig.term, avk.term, pp.term), ok),)
            return MM.ret(st, EnumV("Result", z3.If(ok, 0, 1), {0: (MI.UNIT,), 1: (Opaque("CertificateVerifierError"),)}))
        # byte-wise walks over abstract strings: a string has a length and bytes that are functions of its identity; the walk is
        # unrolled over the common length (<= 2, longer = exhausted), so prefix-only or length-blind comparisons become visible
        if re.search(r"(core::str::<impl str>|str|String)::bytes$", f):
            s_ = MM.deref_all(I, st, args[0])
            if isinstance(s_, Abs):
                return MM.ret(st, Agg("iter", "absbytes", (s_.term,)))
        if re.match(r"^<(std::str::|core::str::)?Bytes<'_> as Iterator>::zip::<", f) and isinstance(args[0], Agg) and args[0].name == "absbytes":
            other = args[1]
            if isinstance(other, Agg) and other.name == "absbytes":
                return MM.ret(st, Agg("iter", "abszip", (args[0].fields[0], other.fields[0])))
        m0 = re.match(r"^<Zip<.*Bytes<'_>, .*Bytes<'_>> as Iterator>::fold::<", f)
        if m0 and isinstance(args[0], Agg) and args[0].name == "abszip":
            t1, t2 = args[0].fields
            LEN = z3.Function("string_length", z3.IntSort(), z3.IntSort())
            CH = z3.Function("string_byte", z3.IntSort(), z3.IntSort(), z3.IntSort())
            common = z3.If(LEN(t1) <= LEN(t2), LEN(t1), LEN(t2))
            clos_ty = [g for g in MM.generic_args(f) if "closure@" in g][0]
            outs = []
            for n in range(0, 3):
                cond = z3.And(LEN(t1) >= 0, LEN(t2) >= 0, common == n)
                if not I.feasible(st, cond):
                    continue
                s2 = st.fork()
                s2.assume(cond)
                states = [(s2, args[1])]
                for i in range(n):
                    nxt = []
                    for s3, acc in states:
                        b1, b2 = CH(t1, z3.IntVal(i)), CH(t2, z3.IntVal(i))
                        s3.assume(z3.And(b1 >= 0, b1 <= 255, b2 >= 0, b2 <= 255))
                        for o in MM.call_closure(I, s3, caller, clos_ty, args[2], [acc, Agg("tuple", None, (b1, b2))]):
                            if o.kind == "return":
                                nxt.append((o.state, o.value))
                            else:
                                outs.append(o)
                    states = nxt
                for s3, acc in states:
                    outs.append(Outcome("return", acc, s3))
            s4 = st.fork()
            s4.assume(common > 2)
            if I.feasible(st, common > 2):
                outs.append(Outcome("exhausted", None, s4, "byte-wise walk over strings longer than 2"))
            return outs
        if re.search(r"String::as_bytes$|String::as_str$|<String as Deref>::deref$|String::as_ref$", f):
            return MM.ret(st, args[0] if isinstance(args[0], Ref) else args[0])
        if re.match(r"^<.* as (Clone|ToOwned)>::(clone|to_owned)$", f):
            return MM.ret(st, MM.deref_all(I, st, args[0]))
        if re.search(r"ProtocolKey::<.*>::into_inner$|ProtocolKey::<.*>::new$", f) and isinstance(MM.deref_all(I, st, args[0]), Abs):
            return MM.ret(st, MM.deref_all(I, st, args[0]))
        m = re.match(r"^<(.*) as TryFrom<&str>>::try_from$", f)
        if m and "AggregateVerificationKey" in m.group(1) or (m and "ProtocolKey" in m.group(1)):
            s = MM.deref_all(I, st, args[0])
            return MM.ret(st, EnumV("Result", z3.If(self.DECOK(s.term), 0, 1), {0: (Abs("key", self.DEC(s.term)),), 1: (Opaque("error"),)}))
        if re.search(r"ProtocolParameters::compute_hash$", f):
            pp = MM.deref_all(I, st, args[0])
            st.assume(self.PPINV(self.PPH(pp.term)) == pp.term)
            return MM.ret(st, Abs("str", self.PPH(pp.term)))
        if re.search(r"Into<(\w+::)*AggregateSignatureType>>::into$|AggregateSignatureType as From<.*>>::from$", f):
            # default features: the Concatenation proof system is the only variant
            return MM.ret(st, EnumV("AggregateSignatureType", 0, {}))
        lastseg = MI.last_segment(f)[0]
        if lastseg in ("new", "from", "into", "into_inner", "to_owned", "clone", "deref", "as_ref", "borrow") and len(args) == 1:
            a0 = MM.deref_all(I, st, args[0])
            if isinstance(a0, Abs) and a0.sort == "key":
                return MM.ret(st, a0)  # wrappers / conversions keep the key's identity
        m = re.match(r"^<(.*) as (Into|From)<.*>>::(into|from)$", f)
        if m and len(args) == 1 and isinstance(args[0], Abs) and args[0].sort == "key":
            return MM.ret(st, args[0])  # key wrapper conversions keep the key's identity
        if re.search(r"to_ed25519_verification_key$", f):
            return MM.ret(st, Abs("key", z3.Int("genesis_verification_key")))
        if re.search(r"ProtocolKey<VerifyingKey>>::verify$", f) or re.search(r"GenesisVerificationKey.*::verify$", f):
            vk = MM.deref_all(I, st, args[0])
            msg = MM.deref_all(I, st, args[1])
            sig = MM.deref_all(I, st, args[2])
            ok = self.GSIG(msg.term, sig.term)
            st.trace = st.trace + (("verify_genesis_signature", (msg.term, sig.term, vk.term if isinstance(vk, Abs) else None), ok),)
            return MM.ret(st, EnumV("Result", z3.If(ok, 0, 1), {0: (MI.UNIT,), 1: (Opaque("error"),)}))
        return None

    def make_coroutine_call(self, fname_regex, upvars):
        body = self.prog.find_one(fname_regex)
        st = MI.State()
        co = EnumV("coroutine", 0, {"upvars": tuple(upvars)})
        self.I.frame_counter += 1
        fr = self.I.frame_counter
        st.mem[(fr, 0)] = co
        pin = Agg("adt", "Pin", (Ref(fr, 0, (), True),))
        return body, st, [pin, Opaque("Context")]

    def run_standard(self):
        c, sbc = self.cert("cert")
        p, sbp = self.cert("prev")
        self.c, self.p, self.sbc, self.sbp = c, p, sbc, sbp
        body, st, args = self.make_coroutine_call(r"::verify_standard_certificate::\{closure#0\}$", [])
        for k in sbc.constraints + sbp.constraints:
            st.assume(k)
        fr = self.I.frame_counter + 1
        self.I.frame_counter += 3
        st.mem[(fr, 0)] = Agg("adt", "MithrilCertificateVerifier", (Opaque("logger"), Opaque("retriever"), Opaque("genesis_verifier")))
        st.mem[(fr + 1, 0)] = c
        st.mem[(fr + 2, 0)] = p
        co = st.mem[(args[0].fields[0].frame, 0)]
        st.mem[(args[0].fields[0].frame, 0)] = EnumV("coroutine", 0, {"upvars": (Ref(fr, 0, ()), Ref(fr + 1, 0, ()), Ref(fr + 2, 0, ()))})
        return self.I.call_fn(body, args, st)

    def run_genesis(self):
        c, sbc = self.cert("gen")
        self.g, self.sbg = c, sbc
        body, st, args = self.make_coroutine_call(r"::verify_genesis_certificate::\{closure#0\}$", [])
        for k in sbc.constraints:
            st.assume(k)
        fr = self.I.frame_counter + 1
        self.I.frame_counter += 2
        st.mem[(fr, 0)] = Agg("adt", "MithrilCertificateVerifier", (Opaque("logger"), Opaque("retriever"), Opaque("genesis_verifier")))
        st.mem[(fr + 1, 0)] = c
        st.mem[(args[0].fields[0].frame, 0)] = EnumV("coroutine", 0, {"upvars": (Ref(fr, 0, ()), Ref(fr + 1, 0, ()))})
        return self.I.call_fn(body, args, st)


def field(db, cert, name):
    names = [n for n, t in db.struct_fields("Certificate")]
    return cert.fields[names.index(name)]


def accepted(outs):
    """[(pc list, state)] of outcomes returning Poll::Ready(Ok(()))"""
    acc = []
    other = []
    for o in outs:
        if o.kind != "return":
            other.append(o)
            continue
        v = o.value
        if not isinstance(v, EnumV) or not v.payloads:
            raise Unencodable("unexpected coroutine result %r" % (v,))
        res = list(v.payloads.values())[0][0]
        d = res.discr
        if isinstance(d, int):
            if d == 0:
                acc.append((list(o.pc), o.state))
        else:
            acc.append((list(o.pc) + [d == 0], o.state))
    return acc, other


def run(tier, seed):
    rep = core.Report("C03", tier, seed)
    rep.trusted_base = ["rustc nightly MIR", "mir2smt interpreter + call models (mir2smt/models.py, checks/c03.py)", "z3, cvc5 cross-check"]
    rep.functions = ["source hashes: %s" % core.source_hashes(SRC)]
    rep.assumptions = [
        "Strings, keys, signatures, parameter sets, protocol messages are elements of uninterpreted sorts: only equality observes them (String/ProtocolKey/ProtocolParameters PartialEq = identity of the value)",
        "Certificate::try_compute_hash = an uninterpreted function of every field but `hash` (what it covers is C04); ProtocolMessage::compute_hash, ProtocolParameters::compute_hash uninterpreted (the latter injective: collision resistance)",
        "Epoch::to_string injective; ProtocolMessage::get_message_part(key) = arbitrary partial function of (message, key)",
        "AVK decoding (TryFrom<&str>) = arbitrary partial function of the string",
        "multi-signature / genesis-signature verification = deterministic oracle of (message, signature, key, parameters) (what it checks is C01)",
        "Clone/ToOwned return an equal value; key wrapper conversions keep the key; logging (slog) disabled; default cargo features (no future_snark)",
        "one link from an arbitrary (certificate, previous certificate) pair; chains of any length by induction on the link predicate; reaching genesis in finitely many steps rests on collision resistance of the certificate hash (paper argument)",
    ]
    rep.outside = ["the client's cached verify_chain loop and certificate retrieval (async, network)", "STM verification (C01), hash pre-image coverage (C04)",
                   "verify_certificate's dispatch is only checked syntactically (calls present in its MIR)", "future_snark feature"]
    rep.solver_vars = ["both epochs: all of u64 x u64", "identity of every string / key / signature / parameter set of both certificates",
                       "presence and content of every protocol-message part", "every oracle verdict and decoder outcome", "signature variant of both certificates"]
    try:
        path, dt = mir.dump("mithril-common")
    except Exception as e:
        rep.inconcl("MIR dump failed: %s" % e)
        return rep.finish()
    prog = MI.Program(open(path).read(), source_root=os.path.join(core.REPO, "mithril-common"))
    ctx = Ctx(prog)
    tmo = 60 if tier == "quick" else 300
    try:
        decide(rep, ctx, prog, tmo, tier)
    except Unencodable as e:
        rep.inconcl("unencodable: %s" % e)
    rep.functions += sorted("%s -> %s" % (k, v) for k, v in ctx.I.calls_seen.items())
    rep.notes.append("interpreter stats: %s, feasibility checks %d" % (ctx.I.stats, ctx.I.solver_checks))
    return rep.finish()


def decide(rep, ctx, prog, tmo, tier):
    I = ctx.I
    db = ctx.db
    outs = ctx.run_standard()
    acc, other = accepted(outs)
    rep.bounds = {"paths_standard": len(outs), "accepting_paths": len(acc), "loop_unroll": 4}
    for o in other:
        rep.inconcl("non-returning path in verify_standard_certificate: %s %s" % (o.kind, o.msg))
    if not acc:
        rep.inconcl("no accepting path (vacuous)")
        return
    c, p = ctx.c, ctx.p
    F = lambda cert, n: field(db, cert, n)
    keytbl = I.enum_tables.get("ProtocolMessagePartKey") or I.load_enum("ProtocolMessagePartKey")
    K = lambda n: z3.IntVal(keytbl[n])
    sigtbl = I.enum_tables.get("CertificateSignature") or I.load_enum("CertificateSignature")
    c_epoch, p_epoch = F(c, "epoch").fields[0], F(p, "epoch").fields[0]
    c_pm, p_pm = F(c, "protocol_message").term, F(p, "protocol_message").term
    c_avk, p_avk = F(c, "aggregate_verification_key").term, F(p, "aggregate_verification_key").term
    c_pp = F(F(c, "metadata"), "protocol_parameters") if False else None
    md_names = [n for n, t in db.struct_fields("CertificateMetadata")]
    c_pp = F(c, "metadata").fields[md_names.index("protocol_parameters")].term
    p_pp = F(p, "metadata").fields[md_names.index("protocol_parameters")].term
    c_sig = F(c, "signature")
    msig_idx = sigtbl["MultiSignature"]
    c_msig = c_sig.payloads[msig_idx][1].term
    accept = z3.Or([z3.And(pc) for pc, _ in acc])
    same = z3.And(p_epoch == c_epoch, p_avk == c_avk, p_pp == c_pp)
    nxt = z3.And(p_epoch + 1 == c_epoch,
                 ctx.HAS(p_pm, K("NextAggregateVerificationKey")), ctx.DECOK(ctx.PART(p_pm, K("NextAggregateVerificationKey"))),
                 ctx.DEC(ctx.PART(p_pm, K("NextAggregateVerificationKey"))) == c_avk,
                 ctx.HAS(p_pm, K("NextProtocolParameters")), ctx.PART(p_pm, K("NextProtocolParameters")) == ctx.PPH(c_pp))
    clauses = [
        ("not_self_loop", "hash != previous_hash", F(c, "hash").term != F(c, "previous_hash").term),
        ("hash_matches_content", "hash = H(every other field of the certificate)", F(c, "hash").term == ctx.content_hash(c)),
        ("signed_message_is_message_digest", "signed_message = digest(protocol_message)", F(c, "signed_message").term == ctx.PMH(c_pm)),
        ("epoch_inside_signed_message", "the protocol message carries CurrentEpoch = to_string(certificate.epoch)",
         z3.And(ctx.HAS(c_pm, K("CurrentEpoch")), ctx.PART(c_pm, K("CurrentEpoch")) == ctx.EPSTR(c_epoch))),
        ("is_multi_signature", "a standard certificate carries a multi-signature", c_sig.discr == msig_idx),
        ("multi_signature_valid_for_own_message_key_params", "the multi-signature oracle accepted (this signed_message, this signature, this AVK, these parameters)",
         ctx.MSIG(F(c, "signed_message").term, c_msig, c_avk, c_pp)),
        ("previous_hash_is_previous_certificate", "previous.hash = certificate.previous_hash", F(p, "hash").term == F(c, "previous_hash").term),
        ("link_same_or_immediately_preceding_epoch", "same epoch with same AVK and parameters, or previous epoch + 1 = epoch with previous signing exactly this AVK and these parameters; nothing else",
         z3.Or(same, nxt)),
    ]
    failures = []
    for name, desc, clause in clauses:
        ob = rep.add(core.Obligation("c03_standard_" + name, "smt", "accept => " + desc, {"vccs": len(acc)}))
        r = smt.check([accept, z3.Not(clause)], timeout_s=tmo, cross=True)
        ob.solver_s = r.seconds
        if r.status == "unsat":
            ob.status = "discharged"
            ob.detail = "cvc5: %s" % r.cross.get("cvc5")
        elif r.status == "sat":
            ob.status = "failed"
            md = smt.model_to_dict(r.model)
            ob.counterexample = {k: v for k, v in md.items() if "epoch" in k or k.endswith(".hash") or "previous_hash" in k}
            failures.append((name, ob, r.model, md))
        else:
            ob.status = "inconclusive"
            ob.detail = r.reason
            rep.inconcl("%s: %s" % (name, r.reason))
    # vacuity witnesses: both link shapes are accepted by some pair
    for nm, shape in (("same_epoch", same), ("next_epoch", nxt)):
        ob = rep.add(core.Obligation("c03_witness_" + nm, "smt", "witness: a %s link is accepted (the encoding is not vacuous)" % nm))
        r = smt.check([accept, shape], timeout_s=tmo)
        ob.solver_s = r.seconds
        ob.status = "discharged" if r.status == "sat" else "inconclusive"
        if r.status != "sat":
            rep.inconcl("witness %s not satisfiable: %s" % (nm, r.status))
    # call-order obligation: the multi-signature oracle is consulted on every accepting path, exactly once
    ob = rep.add(core.Obligation("c03_standard_oracle_called_once", "smt", "every accepting path consults the multi-signature oracle exactly once"))
    ob.status = "discharged" if all(len([e for e in st.trace if e[0] == "verify_multi_signature"]) == 1 for _, st in acc) else "failed"
    if ob.status == "failed":
        failures.append(("oracle_called_once", ob, None, {}))
    # ---- genesis ---------------------------------------------------------------------------------
    gouts = ctx.run_genesis()
    gacc, gother = accepted(gouts)
    for o in gother:
        rep.inconcl("non-returning path in verify_genesis_certificate: %s %s" % (o.kind, o.msg))
    g = ctx.g
    g_sig = F(g, "signature")
    gen_idx = sigtbl["GenesisSignature"]
    g_pm = F(g, "protocol_message").term
    gaccept = z3.Or([z3.And(pc) for pc, _ in gacc]) if gacc else z3.BoolVal(False)
    gclauses = [
        ("is_genesis_signature", "the certificate carries a genesis signature", g_sig.discr == gen_idx),
        ("hash_matches_content", "hash = H(content)", F(g, "hash").term == ctx.content_hash(g)),
        ("signed_message_is_message_digest", "signed_message = digest(protocol_message)", F(g, "signed_message").term == ctx.PMH(g_pm)),
        ("genesis_signature_valid", "the genesis-signature oracle accepted (signed_message, this signature) under the configured key",
         ctx.GSIG(F(g, "signed_message").term, g_sig.payloads[gen_idx][0].term)),
        ("epoch_inside_signed_message", "CurrentEpoch part = to_string(epoch)",
         z3.And(ctx.HAS(g_pm, K("CurrentEpoch")), ctx.PART(g_pm, K("CurrentEpoch")) == ctx.EPSTR(F(g, "epoch").fields[0]))),
    ]
    for name, desc, clause in gclauses:
        ob = rep.add(core.Obligation("c03_genesis_" + name, "smt", "accept => " + desc, {"vccs": len(gacc)}))
        r = smt.check([gaccept, z3.Not(clause)], timeout_s=tmo, cross=True)
        ob.solver_s = r.seconds
        if r.status == "unsat":
            ob.status = "discharged"
        elif r.status == "sat":
            ob.status = "failed"
            failures.append(("genesis_" + name, ob, r.model, smt.model_to_dict(r.model)))
        else:
            ob.status = "inconclusive"
            rep.inconcl("genesis %s: %s" % (name, r.reason))
    ob = rep.add(core.Obligation("c03_witness_genesis", "smt", "witness: some genesis certificate is accepted"))
    r = smt.check([gaccept], timeout_s=tmo)
    ob.status = "discharged" if r.status == "sat" else "inconclusive"
    if r.status != "sat":
        rep.inconcl("genesis witness not satisfiable")
    for kk, st in gacc:
        if not any(e[0] == "verify_genesis_signature" and e[1][2] is not None and str(e[1][2]) == "genesis_verification_key" for e in st.trace):
            rep.inconcl("genesis signature not verified under the configured genesis key on some accepting path")
    # ---- dispatch (syntactic): verify_certificate calls the three pieces ----------------------------
    vc = prog.find_one(r"::verify_certificate::\{closure#0\}$")
    from mir2smt import parser as P
    calls = set()
    for b in vc.blocks.values():
        P.materialize(b)
        if b.term[0] == "call":
            calls.add(MI.last_segment(b.term[2])[0])
    need = {"is_genesis", "verify_genesis_certificate", "fetch_previous_certificate", "verify_standard_certificate"}
    ob = rep.add(core.Obligation("c03_dispatch_calls_present", "smt", "verify_certificate's body calls %s (syntactic check of its MIR)" % sorted(need)))
    ob.status = "discharged" if need <= calls else "failed"
    if ob.status == "failed":
        failures.append(("dispatch", ob, None, {"missing": sorted(need - calls)}))
    # ---- replay -------------------------------------------------------------------------------------
    k = 0
    for name, ob, model, md in failures:
        k += 1
        role = "c03-" + name
        ob.role = role
        native = {}
        reproduced = False
        if name == "link_same_or_immediately_preceding_epoch" and model is not None:
            ce = model.eval(c_epoch, model_completion=True).as_long()
            pe = model.eval(p_epoch, model_completion=True).as_long()
            try:
                from checks.c17 import native_query
                native["kernel"] = {"query": "epoch_gap %d %d" % (ce, pe), "has_gap_with": [l for l in native_query(["epoch_gap %d %d" % (ce, pe)]) if l in ("true", "false")][0]}
                # battery of real bad links (real signatures, real hashes) through the real verifier: any acceptance reproduces
                lines = [l for l in native_query(["chain_link %d" % i for i in range(0, 9)]) if l.startswith(("accepted", "rejected", "pending"))]
                native["battery"] = {"0 honest link": lines[0], "1 re-targeted to following epoch": lines[1], "2 same epoch, foreign signer set": lines[2],
                                     "3 previous epoch, foreign signer set": lines[3], "4 previous is genesis, foreign signer set": lines[4],
                                     "5 same epoch, foreign signer set and parameters": lines[5],
                                     "6 epoch boundary, previous without next-protocol-parameters part, other parameters": lines[6],
                                     "7 epoch boundary, previous without next-aggregate-key part": lines[7], "8 truncated previous_hash": lines[8]}
                reproduced = lines[0].startswith("accepted") and any(l.startswith("accepted") for l in lines[1:])
            except Exception as e:
                native["error"] = str(e)
            what = "link accepted with certificate.epoch=%d previous.epoch=%d (neither same nor immediately preceding); native: %s" % (ce, pe, native)
            if pe == ce + 1:
                role = "c03-link-to-following-epoch"
                ob.role = role
            else:
                role = "c03-link-accepts-unchained-key-or-parameters"
                ob.role = role
        else:
            reproduced = model is None
            if model is not None:
                try:
                    from checks.c17 import native_query
                    lines = [l for l in native_query(["chain_link %d" % i for i in range(0, 9)]) if l.startswith(("accepted", "rejected", "pending"))]
                    native["battery"] = {str(i): l[:90] for i, l in enumerate(lines)}
                    reproduced = lines[0].startswith("accepted") and any(l.startswith("accepted") for l in lines[1:])
                except Exception as e:
                    native["error"] = str(e)
            what = "clause %s fails: %s; native %s" % (name, str(md)[:300], native)
        path = core.write_replay("C03", k, {"property": "C03", "role": role, "obligation": ob.name, "model": {a: b for a, b in md.items() if len(str(b)) < 80},
                                            "native_replay": native})
        rep.violation(role, what, path, reproduced)
        if reproduced:
            rep.traces_validated += 1
