"""C04 — certificates are tamper evident (hash sensitivity), protocol message digests are injective on well-formed parts,
and the certificate <-> API message conversion preserves every hashed field.

Engine B: the MIR of Certificate::try_compute_hash, CertificateMetadata::compute_hash, StakeDistributionParty::compute_hash,
ProtocolParameters::compute_hash, SignedEntityType::feed_hash and ProtocolMessage::compute_hash is executed symbolically; the
SHA-256 hasher is the list of byte strings fed to it, byte strings are terms of the solver's string theory (unbounded
length), the hash is an injective uninterpreted function of the concatenation (collision resistance).
"""
import itertools
import json
import os
import re
import subprocess

import z3

from lib import core, mir, smt
from mir2smt import interp as MI
from mir2smt import models as MM
from mir2smt import container_models as CM
from mir2smt import fmt_models as FM
from mir2smt import sstr
from mir2smt import symval
from mir2smt.interp import Abs, Agg, EnumV, Ref, Opaque, Outcome, Unencodable

SRC = ["mithril-common/src/entities/certificate.rs", "mithril-common/src/entities/certificate_metadata.rs", "mithril-common/src/entities/protocol_message.rs",
       "mithril-common/src/entities/protocol_parameters.rs", "mithril-common/src/entities/signed_entity_type.rs", "mithril-common/src/messages/certificate.rs"]
U64 = 2 ** 64
S = z3.StringSort()
# chrono::DateTime<Utc> spans about +-262000 years; nanoseconds since the Unix epoch as a mathematical integer
CHRONO_NS = 262000 * 366 * 86400 * 10 ** 9


def key_kind(ty):
    """leading type name of a key type: `a::b::AggregateSignature<D>` -> AggregateSignature"""
    m = re.match(r"^(?:\w+::)*(\w+)", ty.strip())
    return m.group(1) if m else re.sub(r"\W+", "_", ty)[:40]


def B(term):
    return Abs("bytes", term)


class Ctx:
    def __init__(self, prog):
        self.prog = prog
        self.I = MI.Interp(prog, models=[self.models, CM.map_models, CM.container_models, FM.fmt_models, MM.hof_models, MM.abs_models, MM.core_models], unroll=6, max_paths=20000)
        self.I.enum_tables.update(MM.ENUM_TABLE_EXTRA)
        self.db = symval.TypeDB([os.path.join(core.REPO, "mithril-common", "src")])
        Int = z3.IntSort()
        self.SHA = z3.Function("sha256", S, S)
        self.SHAinv = z3.Function("sha256_preimage", S, S)
        self.HEX = z3.Function("hex_encode", S, S)
        self.HEXinv = z3.Function("hex_decode", S, S)
        self.BE = {n: z3.Function("be%d" % n, Int, S) for n in (4, 8)}
        self.BEinv = {n: z3.Function("be%d_inv" % n, S, Int) for n in (4, 8)}
        self.ENC = {}
        self.FIX = z3.Function("u8f24_from_f64", Int, Int)
        self.axioms = []

    # -- uninterpreted encoders with their contracts ------------------------------------------------
    def sha(self, st, x):
        t = self.SHA(x)
        self.axioms.append(z3.And(self.SHAinv(t) == x, z3.Length(t) == 32))
        return t

    def hexenc(self, st, x):
        t = self.HEX(x)
        self.axioms.append(z3.And(self.HEXinv(t) == x, z3.Length(t) == 2 * z3.Length(x)))
        return t

    def be(self, st, n, x):
        x = z3.If(x < 0, x + 2 ** (8 * n), x)  # two's complement of the signed inputs (timestamps)
        t = self.BE[n](x)
        self.axioms.append(z3.And(self.BEinv[n](t) == x, z3.Length(t) == n))
        return t

    def enc(self, st, kind, k, minlen=1):
        """injective, non-empty encoding of a key-like value (serde / to_bytes of third-party key types)"""
        if kind not in self.ENC:
            self.ENC[kind] = (z3.Function("encode_" + kind, z3.IntSort(), S), z3.Function("decode_" + kind, S, z3.IntSort()))
        e, d = self.ENC[kind]
        t = e(k)
        self.axioms.append(z3.And(d(t) == k, z3.Length(t) >= minlen))
        return t

    def secs_nanos(self, st, t):
        """(floor(t / 10^9), t mod 10^9) as functions of t with their defining linear fact (no div/mod for the solver)"""
        q = z3.Function("seconds_of", z3.IntSort(), z3.IntSort())(t)
        r = z3.Function("subsec_nanos_of", z3.IntSort(), z3.IntSort())(t)
        st.assume(z3.And(t == q * 10 ** 9 + r, r >= 0, r < 10 ** 9))
        return q, r

    def bytes_of(self, I, st, v):
        v = MM.deref_all(I, st, v)
        if isinstance(v, Abs) and v.sort == "bytes":
            return v.term
        if isinstance(v, sstr.SymStr):
            atoms = getattr(v, "atoms", None)
            if atoms is not None and all(a[0] == "lit" for a in atoms):
                return z3.StringVal(b"".join(a[1] for a in atoms).decode())
        if isinstance(v, Agg) and v.kind in ("array", "vec") and all(z3.is_expr(x) and z3.is_int_value(z3.simplify(x)) for x in v.fields):
            return z3.StringVal("".join(chr(z3.simplify(x).as_long()) for x in v.fields))
        raise Unencodable("bytes of %r" % (v,))

    def models(self, I, st, caller, func, args, argtys, dest_ty):
        f = MM.strip_std_paths(func)
        if re.match(r"^<(Sha256|CoreWrapper<.*>|D) as (\w+::)*Digest>::new$", f):
            return MM.ret(st, Agg("hasher", None, ()))
        if re.match(r"^<(Sha256|CoreWrapper<.*>|D) as (\w+::)*(Digest|Update)>::update(::<.*>)?$", f):
            h = MM.deref_all(I, st, args[0])
            I.store(st, args[0], Agg("hasher", None, tuple(h.fields) + (self.bytes_of(I, st, args[1]),)))
            return MM.ret(st, MI.UNIT)
        if re.match(r"^<(Sha256|CoreWrapper<.*>|D) as (\w+::)*(Digest|FixedOutput)>::(finalize|finalize_fixed)$", f):
            h = MM.deref_all(I, st, args[0])
            parts = list(h.fields)
            pre = z3.Concat(*parts) if len(parts) > 1 else (parts[0] if parts else z3.StringVal(""))
            st.trace = st.trace + (("hash", tuple(parts), None),)
            return MM.ret(st, B(self.sha(st, pre)))
        if re.match(r"^hex::encode::<", f):
            return MM.ret(st, B(self.hexenc(st, self.bytes_of(I, st, args[0]))))
        if re.search(r"String::as_bytes$|String::as_str$|<String as Deref>::deref$|<String as AsRef<.*>>::as_ref$|str::as_bytes$", f):
            return MM.ret(st, args[0])
        if re.match(r"^<GenericArray<.*> as Into<\[u8; 32\]>>::into$", f) or re.match(r"^<\[u8; 32\] as From<GenericArray<.*>>>::from$", f):
            return MM.ret(st, args[0])
        m = re.match(r"^core::num::<impl (u64|i64|u32|usize)>::to_be_bytes$", f)
        if m:
            return MM.ret(st, B(self.be(st, 4 if m.group(1) == "u32" else 8, args[0])))
        if re.search(r"Epoch::to_be_bytes$|BlockNumber::to_be_bytes$", f):
            return None
        if re.search(r"DateTime::<(chrono::)?Utc>::timestamp_nanos_opt$", f):
            t = MM.deref_all(I, st, args[0])
            inr = z3.And(t.term >= -2 ** 63, t.term < 2 ** 63)
            return MM.ret(st, EnumV("Option", z3.If(inr, 1, 0), {1: (t.term,)}))
        if re.search(r"DateTime::<(chrono::)?Utc>::timestamp$", f):
            t = MM.deref_all(I, st, args[0])
            return MM.ret(st, self.secs_nanos(st, t.term)[0])
        if re.search(r"DateTime::<(chrono::)?Utc>::timestamp_subsec_nanos$", f):
            t = MM.deref_all(I, st, args[0])
            return MM.ret(st, self.secs_nanos(st, t.term)[1])
        if re.search(r"ProtocolParameters::phi_f_fixed$", f):
            pp = MM.deref_all(I, st, args[0])
            names = [n for n, t in self.db.struct_fields("ProtocolParameters")]
            phi = pp.fields[names.index("phi_f")]
            v = self.FIX(phi.term)
            st.assume(z3.And(v >= 0, v < 2 ** 32))
            return MM.ret(st, Abs("u8f24", v))
        if re.search(r"FixedU32::<.*>::to_be_bytes$|FixedU32<.*>::to_be_bytes$", f):
            return MM.ret(st, B(self.be(st, 4, MM.deref_all(I, st, args[0]).term)))
        m = re.search(r"ProtocolKey::<(.*)>::(to_json_hex|to_bytes_hex|to_bytes)$", f)
        if m:
            k = MM.deref_all(I, st, args[0])
            kind = key_kind(m.group(1)) + "_" + m.group(2)
            return MM.ret(st, EnumV("Result", 0, {0: (B(self.enc(st, kind, k.term)),)}))
        if re.match(r"^<.* as (Clone|ToOwned)>::(clone|to_owned)$", f):
            return MM.ret(st, MM.deref_all(I, st, args[0]))
        return None


ABSTRACT = {
    r"String": lambda prefix, sb: B(z3.String(prefix)),
    r"ProtocolKey<.*>|ProtocolAggregateVerificationKey.*|ProtocolMultiSignature|GenesisEd25519Signature|Ed25519Signature|ProtocolAncillary.*Data": "key",
    r"DateTime<Utc>": "time",
}


def leaf_paths(v, path=()):
    """(path, kind) of every leaf of a symbolic certificate value; kind in bytes|int|fp|key|time|enum"""
    if isinstance(v, Abs):
        yield path, {"bytes": "bytes", "key": "key", "time": "time"}.get(v.sort, v.sort)
    elif isinstance(v, Agg):
        for i, f in enumerate(v.fields):
            yield from leaf_paths(f, path + (i,))
    elif isinstance(v, EnumV):
        if z3.is_expr(v.discr):
            yield path + ("discr",), "discr"
        for k in sorted(v.payloads, key=str):
            for i, f in enumerate(v.payloads[k]):
                yield from leaf_paths(f, path + (("variant", k), i))
    elif z3.is_expr(v):
        yield path, ("fp" if z3.is_fp(v) else "bool" if z3.is_bool(v) else "int")


def get_at(v, path):
    for p in path:
        if p == "discr":
            return v.discr
        if isinstance(p, tuple):
            v = v.payloads[p[1]]
        elif isinstance(v, tuple):
            v = v[p]
        else:
            v = v.fields[p]
    return v


def set_at(v, path, new):
    if not path:
        return new
    p = path[0]
    if p == "discr":
        return EnumV(v.name, new, v.payloads)
    if isinstance(p, tuple):
        pl = dict(v.payloads)
        tup = list(pl[p[1]])
        i = path[1]
        tup[i] = set_at(tup[i], path[2:], new)
        pl[p[1]] = tuple(tup)
        return EnumV(v.name, v.discr, pl)
    fs = list(v.fields)
    fs[p] = set_at(fs[p], path[1:], new)
    return Agg(v.kind, v.name, tuple(fs))


def subst_value(v, pairs):
    if isinstance(v, Abs):
        return Abs(v.sort, z3.substitute(v.term, *pairs))
    if isinstance(v, Agg):
        return Agg(v.kind, v.name, tuple(subst_value(f, pairs) for f in v.fields))
    if isinstance(v, EnumV):
        d = z3.substitute(v.discr, *pairs) if z3.is_expr(v.discr) else v.discr
        return EnumV(v.name, d, {k: tuple(subst_value(f, pairs) for f in pl) for k, pl in v.payloads.items()})
    if z3.is_expr(v):
        return z3.substitute(v, *pairs)
    return v


PM_KEYS_DEFAULT = ("SnapshotDigest", "NextAggregateVerificationKey", "NextProtocolParameters", "CurrentEpoch")


def build_certificate(ctx, prefix, nsigners, pm_keys=PM_KEYS_DEFAULT):
    """a fully symbolic Certificate; returns (value, builder) — builder.vars maps leaf names to solver variables"""
    I = ctx.I
    keytbl = I.load_enum("ProtocolMessagePartKey")

    def string(p, sb):
        v = z3.String(p)
        sb.vars[p] = v
        return B(v)

    def time(p, sb):
        v = z3.Int(p)
        sb.vars[p] = v
        sb.constraints.append(z3.And(v >= -CHRONO_NS, v <= CHRONO_NS))
        return Abs("time", v)

    def pmsg(p, sb):
        ents = []
        for kname in sorted(pm_keys, key=lambda k_: I.variant_index("ProtocolMessagePartKey", k_)):
            v = z3.String("%s.part.%s" % (p, kname))
            sb.vars["%s.part.%s" % (p, kname)] = v
            ents.append(Agg("tuple", None, (EnumV("ProtocolMessagePartKey", I.variant_index("ProtocolMessagePartKey", kname), {}), B(v))))
        fields = {"message_parts": Agg("btreemap", None, tuple(ents)), "hash_scheme": EnumV("ProtocolMessageHashScheme", 0, {})}
        return Agg("adt", "ProtocolMessage", tuple(fields[n] for n, t in ctx.db.struct_fields("ProtocolMessage")))
    abstract = {r"String": string, r"DateTime<Utc>": time, r"ProtocolMessage": pmsg, r"f64": "f64",
                r"ProtocolKey<.*>|ProtocolAggregateVerificationKey.*|ProtocolMultiSignature|GenesisEd25519Signature|Ed25519Signature|ProtocolAncillary.*Data": "key"}
    sb = symval.SymBuilder(ctx.db, I, abstract=abstract, vec_lengths=[(r".*\.signers", nsigners)])
    cert = sb.make("Certificate", prefix)
    # with default features the ancillary data enums of mithril-stm have no variant: the options are always None
    for fld, ty in (("ancillary_prover_data", "AncillaryProverData"), ("ancillary_verifier_data", "AncillaryVerifierData")):
        if inhabited_variants(ty) == 0 and "%s.%s.is_some" % (prefix, fld) in sb.vars:
            sb.constraints.append(sb.vars["%s.%s.is_some" % (prefix, fld)] == 0)
    return cert, sb


def inhabited_variants(enum_name):
    """number of variants of a mithril-stm enum that survive cfg stripping under the default features"""
    import glob
    for path in glob.glob(os.path.join(core.REPO, "mithril-stm", "src", "**", "*.rs"), recursive=True):
        txt = open(path).read()
        m = re.search(r"pub enum %s\s*\{(.*?)\n\}" % enum_name, txt, re.S)
        if not m:
            continue
        n = 0
        skip = False
        for line in m.group(1).split("\n"):
            t = line.strip()
            if t.startswith("#[cfg(") and "feature" in t:
                skip = True
                continue
            if not t or t.startswith(("//", "#[")):
                continue
            if re.match(r"^[A-Z]\w*", t):
                if not skip:
                    n += 1
                skip = False
        return n
    return 1


def liveness(name, vars_):
    """condition under which the leaf `name` is part of the certificate value (its enum variant / Option is the active one)"""
    conds = []
    segs = name.split(".")
    for i in range(1, len(segs)):
        pre = ".".join(segs[:i])
        if pre + ".is_some" in vars_ and segs[i] == "some":
            conds.append(vars_[pre + ".is_some"] == 1)
        if pre + ".discr" in vars_ and segs[i] != "discr":
            conds.append(("variant", pre, segs[i]))
    return conds


def relation(ctx, outs, h):
    """h is the hash returned by the symbolic run: Or over its Ok paths"""
    return z3.Or([z3.And(list(o.pc) + [h == o.value.payloads[0][0].term]) for o in outs if o.kind == "return" and o.value.discr == 0])


def run_hash(ctx, prog, nsigners, pm_keys=PM_KEYS_DEFAULT):
    cert, sb = build_certificate(ctx, "c", nsigners, pm_keys)
    f = prog.find_one(r"entities/certificate\.rs.*>::try_compute_hash$")
    st = MI.State()
    for c in sb.constraints:
        st.assume(c)
    ctx.I.frame_counter += 1
    fr = ctx.I.frame_counter
    st.mem[(fr, 0)] = cert
    n0 = len(ctx.axioms)
    outs = ctx.I.call_fn(f, [Ref(fr, 0, ())], st)
    bad = [o for o in outs if o.kind != "return"]
    if bad:
        raise Unencodable("try_compute_hash: %s %s" % (bad[0].kind, bad[0].msg))
    return cert, sb, outs, list(ctx.axioms[n0:])


QUICK_DIRECT = 10


ENUM_OF_PREFIX = [(r"\.signature$", "CertificateSignature"), (r"\.MultiSignature\.0$", "SignedEntityType")]


def variant_cond(ctx, V, pre, variant):
    for rx, en in ENUM_OF_PREFIX:
        if re.search(rx, pre):
            return V[pre + ".discr"] == ctx.I.variant_index(en, variant)
    raise Unencodable("enum at %s unknown" % pre)


def zstr_value(model, term):
    v = model.eval(term, model_completion=True)
    try:
        s = v.as_string()
    except Exception:
        s = str(v)
    # z3 escapes non-printable characters as \u{..}
    return re.sub(r"\\u\{([0-9a-fA-F]+)\}", lambda m: chr(int(m.group(1), 16)), s)


COMMON_FIELDS = ("previous_hash", "signed_message", "epoch.0", "metadata.network", "metadata.protocol_version", "metadata.protocol_parameters.k",
                 "metadata.protocol_parameters.m", "metadata.initiated_at", "metadata.sealed_at")


def common_fields(model, V, except_field):
    """values the model gives to the other plain fields: applied to both native certificates so that the context matches"""
    out = []
    for n in sorted(V):
        if n == except_field:
            continue
        short = n[2:]
        if short in COMMON_FIELDS or re.match(r"^metadata\.signers\[\d+\]\.(party_id|stake)$", short):
            v = V[n]
            out.append([short, zstr_value(model, v).encode().hex() if z3.is_string(v) else str(model.eval(v, model_completion=True))])
    return out


def native_cert_hash(rows):
    from checks.c17 import native_query
    lines = native_query(["cert_hash " + json.dumps(r).encode().hex() for r in rows])
    return [l for l in lines if l.startswith(("equal", "different", "unsupported"))]


def entity_spec(ctx, model, V, pre, discr_val):
    names = ctx.I.load_enum("SignedEntityType")
    names = list(names.keys()) if isinstance(names, dict) else list(names)
    vn = [n for n in names if ctx.I.variant_index("SignedEntityType", n) == discr_val][0]
    nums = []
    for k in sorted(V):
        if k.startswith(pre + "." + vn + "."):
            nums.append(str(model.eval(V[k], model_completion=True)))
    return ":".join([vn] + nums)


def run(tier, seed):
    rep = core.Report("C04", tier, seed)
    rep.trusted_base = ["rustc nightly MIR", "mir2smt interpreter + hasher / encoder call models", "z3 (sequence theory) for the certificate queries, cvc5 (strings) for the protocol-message code lemma"]
    rep.functions = ["source hashes: %s" % core.source_hashes(SRC)]
    NS = 1 if tier == "quick" else 2
    rep.bounds = {"signers_in_metadata": "%d and %d (list length difference)" % (NS, NS + 1), "string_lengths": "unbounded (solver sequence theory)",
                  "protocol_message_key_set_in_certificate_runs": list(PM_KEYS_DEFAULT)}
    rep.assumptions = [
        "SHA-256 is collision resistant: an injective uninterpreted function of the concatenation of everything fed to the hasher; hex::encode is injective and doubles the length",
        "u64/i64::to_be_bytes: injective, 8 bytes; U8F24::to_be_bytes: injective, 4 bytes",
        "ProtocolKey::to_json_hex / to_bytes_hex / to_bytes of keys, signatures and ancillary data: injective per type, non-empty, always Ok; an Ed25519 genesis signature encodes to 128 characters and a multi-signature's JSON-hex to more than 128",
        "protocol parameters are compared at the protocol's fixed-point precision: phi_f differs means U8F24::from_num(phi_f) differs (from_num is an uninterpreted function of the float)",
        "chrono::DateTime<Utc>: nanoseconds since the Unix epoch as an unbounded integer within chrono's +-262000 years; timestamp_nanos_opt is Some exactly inside i64",
        "default cargo features (no future_snark: no SNARK aggregate key, no dual genesis signature, legacy protocol-message hash scheme)",
    ]
    rep.outside = ["JSON text layer (serde_json): float formatting/parsing of phi_f, RFC 3339 timestamps", "differences in two or more fields at once (the property speaks of single fields; adjacent variable-length fields are not length-prefixed)",
                   "the `hash` field itself (it is the output)", "SHA-256 / hex internals"]
    rep.solver_vars = ["every string field: all contents, all lengths", "every integer field over its full machine range", "timestamps over chrono's full range", "signature kind, signed entity type and its beacon fields, presence of ancillary data"]
    try:
        path, dt = mir.dump("mithril-common")
    except Exception as e:
        rep.inconcl("MIR dump failed: %s" % e)
        return rep.finish()
    prog = MI.Program(open(path).read(), source_root=os.path.join(core.REPO, "mithril-common"))
    tmo = 60 if tier == "quick" else 300
    failures = []
    try:
        ctx = Ctx(prog)
        cert, sb, outs, axioms = run_hash(ctx, prog, NS)
        V = sb.vars
        h = z3.String("certificate_hash")
        phi1 = relation(ctx, outs, h)
        # shape facts of the encoders (see assumptions)
        shape = []
        for kind, (e, d) in ctx.ENC.items():
            pass
        base = [phi1] + axioms + list(sb.constraints)
        ob = rep.add(core.Obligation("c04_witness_hash", "smt", "witness: some certificate has a hash (the encoding is satisfiable)", {"paths": len(outs)}))
        r = smt.check([z3.Or([z3.And(list(o.pc)) for o in outs if o.kind == "return" and o.value.discr == 0])] + list(sb.constraints), timeout_s=tmo)
        ob.solver_s = r.seconds
        ob.status = "discharged" if r.status == "sat" else "inconclusive"
        if r.status != "sat":
            rep.inconcl("witness: %s" % r.status)

        def enc_shape(ax_list):
            """length facts about genesis-signature and multi-signature encodings found among the axiom instances"""
            facts = []
            for kind, (e, d) in ctx.ENC.items():
                for nm, var in V.items():
                    if z3.is_int(var) and nm.endswith(("GenesisSignature.0",)) and "Signature_to_bytes_hex" in kind or False:
                        pass
            return facts

        def query(name, desc, pairs, differ, extra=(), role=None, field=None, replay_builder=None):
            phi2 = z3.substitute(phi1, *pairs)
            ax2 = [z3.substitute(a, *pairs) for a in axioms]
            c2 = [z3.substitute(c, *pairs) for c in sb.constraints]
            ob = rep.add(core.Obligation(name, "smt", desc, {"vccs": 1}))
            shape_facts = sig_shape(pairs)
            # 1. the direct query: string theory + injective uninterpreted encoders, no decomposition (answers unsat in milliseconds,
            #    rarely produces models)
            import time as _t
            r = smt.check_status_forked(base + [phi2] + ax2 + c2 + [differ] + list(extra) + shape_facts, timeout_s=QUICK_DIRECT)
            ob.solver_s = r.seconds
            ob.bounds["direct_string_query"] = r.status
            if r.status == "unsat":
                ob.status = "discharged"
                return ob
            model = None
            if model is None:
                # 2. path-pair search with the aligned-atom decomposition (produces models; sound rewriting of hash equality)
                t0 = _t.time()
                m = counterexample_search(ctx, outs, pairs, list(sb.constraints) + c2 + [differ] + list(extra) + shape_facts, axioms, tmo)
                ob.solver_s += _t.time() - t0
                ob.bounds["decomposition"] = "no counterexample" if m is None else "gave up" if m == "unknown" else "counterexample"
                if m is None:
                    ob.status = "discharged"
                    return ob
                if m == "unknown":
                    ob.status = "inconclusive"
                    rep.inconcl("%s: %s" % (name, r.reason or "solver gave up"))
                    return ob
                model = m
            ob.status = "failed"
            ob.role = role or ("c04-" + name[len("c04_"):])
            spec = replay_builder(model) if replay_builder else None
            ob.counterexample = {"field": field, "spec": spec}
            failures.append((ob, spec))
            return ob

        def sig_shape(pairs):
            facts = []
            for kind, (e, d) in ctx.ENC.items():
                terms = [V[n] for n in V if z3.is_int(V[n])] + [p[1] for p in pairs if z3.is_int(p[1])]
                if "to_bytes_hex" in kind and ("Signature" in kind or "ed25519" in kind.lower()):
                    for n in V:
                        if n.endswith("GenesisSignature.0"):
                            for t in [V[n]] + [p[1] for p in pairs if p[0] is V[n]]:
                                facts.append(z3.Length(e(t)) == 128)
                if "to_json_hex" in kind and "AggregateSignature" in kind:
                    for n in V:
                        if n.endswith("MultiSignature.1"):
                            for t in [V[n]] + [p[1] for p in pairs if p[0] is V[n]]:
                                facts.append(z3.Length(e(t)) > 128)
            return facts

        def fresh(var, name):
            if z3.is_string(var):
                return z3.String(name + "'")
            return z3.Int(name + "'")

        def live_of(name):
            conds = []
            for c in liveness(name, V):
                conds.append(variant_cond(ctx, V, c[1], c[2]) if isinstance(c, tuple) else c)
            return conds

        def simple_spec(field, kind):
            def build(model):
                x, y = V[field], fresh(V[field], field)
                common = common_fields(model, V, field)
                mm_ = re.match(r"^(c\.signature\.MultiSignature\.0)\.(\w+)\.", field)
                if mm_ and not field.endswith(".discr"):
                    # a beacon field of one signed entity variant: replayed as two complete signed entity types
                    epre_, vn_ = mm_.group(1), mm_.group(2)
                    dv_ = ctx.I.variant_index("SignedEntityType", vn_)
                    V2_ = dict(V)
                    V2_[field] = y
                    return {"field": "signature.entity", "a": entity_spec(ctx, model, V, epre_, dv_), "b": entity_spec(ctx, model, V2_, epre_, dv_), "common": common}
                if kind == "str":
                    return {"field": field[2:], "a": zstr_value(model, x).encode().hex(), "b": zstr_value(model, y).encode().hex(), "common": common}
                return {"field": field[2:], "a": str(model.eval(x, model_completion=True)), "b": str(model.eval(y, model_completion=True)), "common": common}
            return build

        for name in sorted(V):
            if name == "c.hash" or name.endswith(".discr") and "MultiSignature.0" in name:
                continue
            var = V[name]
            x2 = fresh(var, name)
            pairs = [(var, x2)]
            short = re.sub(r"[^A-Za-z0-9]+", "_", name[2:])
            live = live_of(name)
            if name.endswith("phi_f"):
                query("c04_field_" + short, "two certificates that differ only in phi_f (at U8F24 precision) have different hashes", pairs, ctx.FIX(var) != ctx.FIX(x2), live, field=name, replay_builder=simple_spec(name, "int"))
            elif name.endswith(("initiated_at", "sealed_at")):
                inr = [var >= -2 ** 63, var < 2 ** 63, x2 >= -2 ** 63, x2 < 2 ** 63]
                query("c04_field_" + short + "_within_i64_nanoseconds", "two certificates that differ only in %s (both within the i64-nanosecond range, years 1677..2262) have different hashes" % name[2:], pairs, var != x2, live + inr,
                      field=name, replay_builder=simple_spec(name, "int"))
                query("c04_field_" + short + "_any", "two certificates that differ only in %s (any representable time) have different hashes" % name[2:], pairs, var != x2, live,
                      role="c04-timestamp-outside-i64-nanoseconds-" + name.split(".")[-1], field=name, replay_builder=simple_spec(name, "int"))
            elif name.endswith(".is_some") or name == "c.signature.discr":
                query("c04_field_" + short, "two certificates that differ only in %s have different hashes" % name[2:], pairs, var != x2, live, field=name, replay_builder=simple_spec(name, "int"))
            else:
                query("c04_field_" + short, "two certificates that differ only in %s have different hashes (all values)" % name[2:], pairs, var != x2, live,
                      field=name, replay_builder=simple_spec(name, "str" if z3.is_string(var) else "int"))
        # signed entity type: every pair of variants, payloads arbitrary on both sides
        pre = [n for n in V if n.endswith("MultiSignature.0.discr")]
        if pre:
            dname = pre[0]
            epre = dname[:-len(".discr")]
            names = ctx.I.load_enum("SignedEntityType")
            names = list(names.keys()) if isinstance(names, dict) else list(names)
            evars = [n for n in V if n.startswith(epre + ".") and n != dname]
            for a_i, b_i in itertools.combinations(range(len(names)), 2):
                va, vb = names[a_i], names[b_i]
                pairs = [(V[dname], z3.IntVal(ctx.I.variant_index("SignedEntityType", vb)))] + [(V[n], fresh(V[n], n)) for n in evars]
                ia, ib = ctx.I.variant_index("SignedEntityType", va), ctx.I.variant_index("SignedEntityType", vb)

                def build(model, ia=ia, ib=ib, pairs=pairs):
                    m2 = {p[0].decl().name(): p[1] for p in pairs}
                    V2 = {n: (m2.get(V[n].decl().name(), V[n]) if z3.is_const(V[n]) else V[n]) for n in V}
                    return {"field": "signature.entity", "a": entity_spec(ctx, model, V, epre, ia), "b": entity_spec(ctx, model, V2, epre, ib)}
                query("c04_entity_type_%s_vs_%s" % (va, vb), "a certificate signed for %s(..) and one signed for %s(..), equal in every other field, have different hashes (all beacon values)" % (va, vb),
                      pairs, z3.BoolVal(True), live_of(dname) + [V[dname] == ia], role="c04-signed-entity-type-%s-vs-%s" % (va, vb), field="signature.entity", replay_builder=build)
        # list of signers: one more party
        ctx_b = ctx
        cert_b, sb_b, outs_b, axioms_b = run_hash(ctx_b, prog, NS + 1)
        phi_b = relation(ctx_b, outs_b, h)
        ob = rep.add(core.Obligation("c04_signers_list_length", "smt", "a certificate with %d signers in its metadata and one with the same %d plus one more have different hashes" % (NS, NS)))
        r = smt.check_status_forked(base + [phi_b] + axioms_b + list(sb_b.constraints), timeout_s=QUICK_DIRECT)
        ob.solver_s = r.seconds
        model = None
        if r.status == "unsat":
            ob.status = "discharged"
        else:
            m = counterexample_search(ctx, outs, [], list(sb.constraints) + list(sb_b.constraints), axioms + axioms_b, tmo, outs2=outs_b)
            if m is None:
                ob.status = "discharged"
            elif m == "unknown":
                ob.status = "inconclusive"
                rep.inconcl("signers list length: solver gave up")
            else:
                model = m
        if model is not None:
            ob.status = "failed"
            ob.role = "c04-signers_list_length"
            Vb = sb_b.vars
            spec = {"field": "metadata.signers.len", "a": "0", "b": "1", "common": common_fields(model, V, None),
                    "extra_signer": [zstr_value(model, Vb["c.metadata.signers[%d].party_id" % NS]).encode().hex(), str(model.eval(Vb["c.metadata.signers[%d].stake" % NS], model_completion=True))]}
            ob.counterexample = {"field": "metadata.signers", "spec": spec}
            failures.append((ob, spec))
        # two signers sharing one party id (a list that is not strictly increasing by id): the stake of the first, shadowed in any
        # map keyed by party id, must still be committed to.  Runs on the longer list of the length obligation above.
        sb, outs, axioms, phi1 = sb_b, outs_b, axioms_b, phi_b
        V = sb.vars
        base = [phi1] + axioms + list(sb.constraints)
        NB = NS + 1
        if NB >= 2:
            p0, p1 = V["c.metadata.signers[0].party_id"], V["c.metadata.signers[%d].party_id" % (NB - 1)]
            for fld in ("stake", ):
                for idx in (0, NB - 1):
                    nm = "c.metadata.signers[%d].%s" % (idx, fld)
                    x2 = fresh(V[nm], nm)
                    query("c04_signers_duplicate_id_%s_%d_of_%d" % (fld, idx, NB), "two certificates whose %d signers include two entries with the same party id and that differ only in the %s of entry %d have different hashes" % (NB, fld, idx),
                          [(V[nm], x2)], V[nm] != x2, [p0 == p1], role="c04-signers-duplicate-id-%s" % fld, field=nm, replay_builder=simple_spec(nm, "int"))
            # the fields of the last entry of the longer list on their own (the per-field loop above ran on the shorter list)
            for fld in ("party_id", "stake"):
                nm = "c.metadata.signers[%d].%s" % (NB - 1, fld)
                x2 = fresh(V[nm], nm)
                query("c04_field_metadata_signers_%d_%s_of_%d" % (NB - 1, fld, NB), "two certificates with %d signers that differ only in the %s of the last one have different hashes (all values)" % (NB, fld),
                      [(V[nm], x2)], V[nm] != x2, [], field=nm, replay_builder=simple_spec(nm, "str" if z3.is_string(V[nm]) else "int"))
        rep.functions += sorted(set("%s -> %s" % (a, b) for a, b in ctx.I.calls_seen.items() if b.startswith("mir:")))
    except Unencodable as e:
        rep.inconcl("unencodable: %s" % e)
    failures_pm, failures_rt = [], []
    try:
        pm_injectivity(Ctx(prog), prog, rep, tmo, failures_pm)
    except Unencodable as e:
        rep.inconcl("unencodable (protocol message digest): %s" % e)
    try:
        round_trip(prog, rep, tmo, failures_rt)
    except Unencodable as e:
        rep.inconcl("unencodable (round trip): %s" % e)
    # ---- replay ----------------------------------------------------------------------------------------------------
    k = 100
    seen_roles = set()
    for ob, info in failures_pm:
        if ob.role in seen_roles:
            continue
        seen_roles.add(ob.role)
        k += 1
        native = {}
        reproduced = False
        try:
            rows = pm_candidates(info)
            from checks.c17 import native_query
            lines = native_query(["pm_hash " + json.dumps(r_).encode().hex() for r_ in rows])
            lines = [l for l in lines if l.startswith(("equal-digests", "different-digests", "unsupported"))]
            native["pm_hash"] = [{"pair": r_, "native": l} for r_, l in zip(rows, lines) if l.startswith("equal-digests different-messages")][:3] or lines[:6]
            reproduced = any(l.startswith("equal-digests different-messages") for l in lines)
        except Exception as e:
            native["error"] = str(e)
        path = core.write_replay("C04", k, {"property": "C04", "role": ob.role, "obligation": ob.name, "counterexample": ob.counterexample, "native_replay": native})
        rep.violation(ob.role, "%s: two different well-formed protocol messages with the same digest: %s; native %s" % (ob.name, ob.counterexample, native), path, reproduced)
        if reproduced:
            rep.traces_validated += 1
    for ob in failures_rt:
        k += 1
        native = {}
        reproduced = False
        try:
            from checks.c17 import native_query
            lines = [l for l in native_query(["cert_roundtrip"]) if l.startswith("roundtrip")]
            native["cert_roundtrip"] = lines
            reproduced = any("VIOLATED" in l for l in lines)
        except Exception as e:
            native["error"] = str(e)
        path = core.write_replay("C04", k, {"property": "C04", "role": ob.role, "obligation": ob.name, "counterexample": ob.counterexample, "native_replay": native})
        rep.violation(ob.role, "%s: %s; native %s" % (ob.name, ob.counterexample, native), path, reproduced)
        if reproduced:
            rep.traces_validated += 1
    k = 0
    for ob, spec in failures:
        k += 1
        native = {}
        reproduced = False
        try:
            if spec is not None:
                native["cert_hash"] = native_cert_hash([spec])
                reproduced = bool(native["cert_hash"]) and native["cert_hash"][0] == "equal"
        except Exception as e:
            native["error"] = str(e)
        path = core.write_replay("C04", k, {"property": "C04", "role": ob.role, "obligation": ob.name, "spec": spec, "native_replay": native})
        rep.violation(ob.role, "%s: two certificates differing only in %s hash the same: %s; native %s" % (ob.name, (ob.counterexample or {}).get("field"), spec, native), path, reproduced)
        if reproduced:
            rep.traces_validated += 1
    return rep.finish()


# ---- aligned-atom decomposition of "two hashes are equal" -------------------------------------------------------------------------
# The direct query (string theory + injective uninterpreted encoders) answers `unsat` in milliseconds but does not produce models.
# To obtain counterexamples, equality of two hash terms is rewritten — soundly — into a formula over the integers / keys the atoms
# depend on: A.M1.B = A.M2.B <=> M1 = M2 (identical prefix / suffix atoms cancel), and two sequences of fixed-length atoms with
# the same length profile are equal iff they are equal atom by atom; an injective encoder's results are equal iff its arguments are.
def _flatten(t):
    if z3.is_app(t) and t.decl().kind() == z3.Z3_OP_SEQ_CONCAT:
        out = []
        for c in t.children():
            out += _flatten(c)
        return out
    if z3.is_string_value(t) and t.as_string() == "":
        return []
    return [t]


def _fixed_len(a):
    if z3.is_string_value(a):
        return len(a.as_string())
    if z3.is_app(a) and a.decl().kind() == z3.Z3_OP_UNINTERPRETED:
        n = a.decl().name()
        if n == "be8":
            return 8
        if n == "be4":
            return 4
        if n == "sha256":
            return 32
        if n == "hex_encode":
            inner = _fixed_len(a.arg(0))
            return None if inner is None else 2 * inner
    return None


def atom_eq(a, b):
    if z3.eq(a, b):
        return z3.BoolVal(True)
    if z3.is_string_value(a) and z3.is_string_value(b):
        return z3.BoolVal(a.as_string() == b.as_string())
    ua = z3.is_app(a) and a.decl().kind() == z3.Z3_OP_UNINTERPRETED
    ub = z3.is_app(b) and b.decl().kind() == z3.Z3_OP_UNINTERPRETED
    if ua and ub and a.decl().name() == b.decl().name():
        x, y = a.arg(0), b.arg(0)
        if z3.is_string(x):
            return hash_eq(x, y)
        return x == y
    return a == b  # residual: left to the solver (with the encoders' axioms)


def hash_eq(t1, t2):
    """formula equivalent to t1 = t2 for two byte-string terms built from concatenation and the injective encoders"""
    A, Bs = _flatten(t1), _flatten(t2)
    while A and Bs and z3.eq(A[0], Bs[0]):
        A, Bs = A[1:], Bs[1:]
    while A and Bs and z3.eq(A[-1], Bs[-1]):
        A, Bs = A[:-1], Bs[:-1]
    conds = []
    # pair off aligned fixed-length atoms from both ends
    while A and Bs and _fixed_len(A[0]) is not None and _fixed_len(A[0]) == _fixed_len(Bs[0]):
        conds.append(atom_eq(A[0], Bs[0]))
        A, Bs = A[1:], Bs[1:]
    while A and Bs and _fixed_len(A[-1]) is not None and _fixed_len(A[-1]) == _fixed_len(Bs[-1]):
        conds.append(atom_eq(A[-1], Bs[-1]))
        A, Bs = A[:-1], Bs[:-1]
    if not A and not Bs:
        return z3.And(conds) if conds else z3.BoolVal(True)
    la = [_fixed_len(x) for x in A]
    lb = [_fixed_len(x) for x in Bs]
    if all(x is not None for x in la + lb) and sum(la) != sum(lb):
        return z3.BoolVal(False)
    if len(A) == 1 and len(Bs) == 1:
        conds.append(atom_eq(A[0], Bs[0]))
        return z3.And(conds)
    cat = lambda xs: z3.Concat(*xs) if len(xs) > 1 else (xs[0] if xs else z3.StringVal(""))
    conds.append(cat(A) == cat(Bs))  # residual word equation
    return z3.And(conds)


def counterexample_search(ctx, outs, pairs, extra, axioms, timeout_s, outs2=None):
    """path-pair-wise search for two inputs with equal hashes using the decomposition above; returns a model or None / 'unknown'"""
    oks = [o for o in outs if o.kind == "return" and o.value.discr == 0]
    oks2 = oks if outs2 is None else [o for o in outs2 if o.kind == "return" and o.value.discr == 0]
    unknown = False
    for o1 in oks:
        for o2 in oks2:
            pc2 = [z3.substitute(c, *pairs) for c in o2.pc] if pairs else list(o2.pc)
            pre = list(o1.pc) + pc2 + list(extra)
            s = z3.Solver()
            s.set("timeout", 5000)
            s.add(pre)
            if s.check() == z3.unsat:
                continue
            h1 = o1.value.payloads[0][0].term
            h2 = z3.substitute(o2.value.payloads[0][0].term, *pairs) if pairs else o2.value.payloads[0][0].term
            eq = hash_eq(h1, h2)
            ax = list(axioms) + ([z3.substitute(a, *pairs) for a in axioms] if pairs else [])
            r = smt.check(pre + [eq] + (ax if "Concat" in str(eq) or "==" in str(z3.simplify(eq)) and z3.is_string(h1) and "str." in z3.simplify(eq).sexpr() else []), timeout_s=timeout_s)
            if r.status == "sat":
                return r.model
            if r.status != "unsat":
                unknown = True
    return "unknown" if unknown else None


# ---- protocol message digest: the encoding fed to the hasher is uniquely decodable ----------------------------------------------
WELL_FORMED = "(re.+ (re.union (re.range \"0\" \"9\") (re.range \"a\" \"f\")))"   # digests, JSON-hex keys, decimal numbers


def cvc5_strings(script, timeout_s):
    path = os.path.join(core.CACHE, "c04-%d.smt2" % os.getpid())
    with open(path, "w") as f:
        f.write(script)
    try:
        p = subprocess.run(["cvc5", "--lang", "smt2", "--strings-exp", "--produce-models", "--tlimit=%d" % (timeout_s * 1000), path],
                           stdout=subprocess.PIPE, stderr=subprocess.STDOUT, text=True, timeout=timeout_s + 10)
    except subprocess.TimeoutExpired:
        return "unknown", {}
    out = p.stdout.strip()
    first = out.split("\n")[0].strip()
    if first == "unsat":
        return "unsat", {}
    if "(error" in out:
        return "error: " + out[:200], {}
    vals = dict(re.findall(r"\((\w+) \"((?:[^\"]|\"\")*)\"\)", out))
    return first, vals


def smt_str(b):
    return '"' + "".join(ch if 32 <= ord(ch) < 127 and ch != '"' and ch != "\\" else "\\u{%x}" % ord(ch) for ch in b) + '"'


def template_expr(tpl, valname):
    parts = [smt_str(a[1]) if a[0] == "lit" else valname for a in tpl]
    if not parts:
        return '""'
    return parts[0] if len(parts) == 1 else "(str.++ %s)" % " ".join(parts)


def template_regex(tpl):
    parts = ["(str.to_re %s)" % smt_str(a[1]) if a[0] == "lit" else WELL_FORMED for a in tpl]
    if not parts:
        return '(str.to_re "")'
    return parts[0] if len(parts) == 1 else "(re.++ %s)" % " ".join(parts)


def pm_templates(ctx, prog, rep):
    """per-key contribution of ProtocolMessage::compute_hash to the hasher, from symbolic runs on singleton messages,
    validated on pairs and on the full key set (the loop treats every entry alike and visits keys in Ord order)"""
    I = ctx.I
    names = I.load_enum("ProtocolMessagePartKey")
    names = list(names.keys()) if isinstance(names, dict) else list(names)
    f = prog.find_one(r"entities/protocol_message\.rs.*>::compute_hash$")

    def run(keys):
        vals = {k: z3.String("part_value_" + k) for k in keys}
        ents = tuple(Agg("tuple", None, (EnumV("ProtocolMessagePartKey", I.variant_index("ProtocolMessagePartKey", k), {}), B(vals[k]))) for k in keys)
        fields = {"message_parts": Agg("btreemap", None, ents), "hash_scheme": EnumV("ProtocolMessageHashScheme", 0, {})}
        pm = Agg("adt", "ProtocolMessage", tuple(fields[n] for n, t in ctx.db.struct_fields("ProtocolMessage")))
        st = MI.State()
        I.frame_counter += 1
        fr = I.frame_counter
        st.mem[(fr, 0)] = pm
        outs = [o for o in I.call_fn(f, [Ref(fr, 0, ())], st)]
        if len(outs) != 1 or outs[0].kind != "return":
            raise Unencodable("ProtocolMessage::compute_hash on %s: %d paths" % (keys, len(outs)))
        t = outs[0].value.term
        # hex_encode(sha256(preimage))
        if not (z3.is_app(t) and t.decl().name() == "hex_encode" and t.arg(0).decl().name() == "sha256"):
            raise Unencodable("protocol message digest is not hex(sha256(..)): %s" % t.sexpr()[:80])
        atoms = []
        for a in _flatten(t.arg(0).arg(0)):
            if z3.is_string_value(a):
                atoms.append(("lit", a.as_string()))
            else:
                hit = [k for k in keys if z3.eq(a, vals[k])]
                if not hit:
                    raise Unencodable("unexpected hasher input %s" % a.sexpr()[:60])
                atoms.append(("val", hit[0]))
        return atoms
    tpl = {}
    for k in names:
        tpl[k] = [("lit", a[1]) if a[0] == "lit" else ("val",) for a in run([k])]
    order = sorted(names, key=lambda k: I.variant_index("ProtocolMessagePartKey", k))
    ok = True
    checked = 0
    sets = [order] + [list(p) for p in itertools.combinations(order, 2)]
    for ks in sets:
        got = run(list(reversed(ks)))  # inserted in reverse: iteration must still be in key order
        want = []
        for k in ks:
            want += [("lit", a[1]) if a[0] == "lit" else ("val", k) for a in tpl[k]]
        # adjacent literals may have been fed separately or together: compare the flattened text with value markers
        flat = lambda atoms: "".join(a[1] if a[0] == "lit" else "\x00%s\x00" % a[1] for a in atoms)
        checked += 1
        if flat(got) != flat(want):
            ok = False
    ob = rep.add(core.Obligation("c04_pm_digest_is_concatenation_of_entry_templates", "smt",
                                 "ProtocolMessage::compute_hash = hex(sha256(concatenation, in key order, of each entry's template)) — templates taken from singleton messages, confirmed on every pair of keys and on the full key set inserted in reverse order",
                                 {"vccs": checked, "keys": len(names)}))
    ob.status = "discharged" if ok else "failed"
    return tpl, order, ob


def pm_injectivity(ctx, prog, rep, tmo, failures_pm):
    old_unroll = ctx.I.unroll
    ctx.I.unroll = 40
    try:
        tpl, order, ob0 = pm_templates(ctx, prog, rep)
    finally:
        ctx.I.unroll = old_unroll
    if ob0.status != "discharged":
        ob0.role = "c04-pm-digest-structure"
        failures_pm.append((ob0, None))
        return
    rep.enumerated.append("protocol message part keys: %s" % order)
    cont = "(re.union (str.to_re \"\") %s)" % " ".join("(re.++ %s re.all)" % template_regex(tpl[k]) for k in order)
    head = "(set-logic QF_SLIA)\n(declare-fun v () String)\n(declare-fun w () String)\n(declare-fun r () String)\n(declare-fun s () String)\n" \
           "(assert (str.in_re v %s))\n(assert (str.in_re w %s))\n(assert (str.in_re r %s))\n(assert (str.in_re s %s))\n" % (WELL_FORMED, WELL_FORMED, cont, cont)
    # (a) same key first: the value boundary is unambiguous.  For templates of the form literal.value, Levi's lemma turns
    #     x.v.r = x.w.s with (v, r) != (w, s) into: one value extends the other by a non-empty well-formed u, and u followed by a
    #     continuation is again a non-empty continuation — emptiness of a regular-language intersection, decided by z3
    standard = all(t and t[-1][0] == "val" and all(a_[0] == "lit" for a_ in t[:-1]) for t in tpl.values())
    import time as _t
    if standard:
        hexre = z3.Plus(z3.Union(z3.Range("0", "9"), z3.Range("a", "f")))
        # continuations = encodings of key-sorted entry lists: (entry k1)? (entry k2)? ... in key order
        ent1 = lambda k: z3.Concat(z3.Re("".join(a_[1] for a_ in tpl[k][:-1])), hexre)
        cont = z3.Concat(*[z3.Option(ent1(k)) for k in order])
        contp = z3.Intersect(cont, z3.Plus(z3.AllChar(z3.ReSort(z3.StringSort()))))
        x = z3.String("x")
        ob = rep.add(core.Obligation("c04_pm_value_boundary_unambiguous", "smt",
                                     "no string is both (a non-empty [0-9a-f]+ extension of a value, followed by a continuation) and (a non-empty continuation): equal encodings with the same first key carry the same value and remainder",
                                     {"keys": len(order)}))
        t0 = _t.time()
        r = smt.check([z3.InRe(x, z3.Intersect(z3.Concat(hexre, cont), contp))], timeout_s=tmo)
        ob.solver_s = _t.time() - t0
        if r.status == "unsat":
            ob.status = "discharged"
        elif r.status == "sat":
            ob.status = "failed"
            ob.role = "c04-pm-digest-not-injective"
            xs = zstr_value(r.model, x)
            ob.counterexample = {"ambiguous_suffix": xs}
            failures_pm.append((ob, ("boundary", {k: "".join(a_[1] for a_ in tpl[k][:-1]) for k in order}, {"x": xs, "order": list(order)})))
        else:
            ob.status = "inconclusive"
            rep.inconcl("%s: %s" % (ob.name, r.reason))
    for k in ([] if standard else order):
        ob = rep.add(core.Obligation("c04_pm_decode_value_%s" % k, "smt",
                                     "encodings that both start with the entry %s and are equal as byte strings carry the same value for it and the same remainder (values over [0-9a-f]+, remainder = empty or an entry followed by anything)" % k))
        script = head + "(assert (= (str.++ %s r) (str.++ %s s)))\n(assert (or (distinct v w) (distinct r s)))\n(check-sat)\n(get-value (v w r s))\n" % (template_expr(tpl[k], "v"), template_expr(tpl[k], "w"))
        t0 = _t.time()
        st_, vals = cvc5_strings(script, tmo)
        ob.solver_s = _t.time() - t0
        if st_ == "unsat":
            ob.status = "discharged"
        elif st_ == "sat":
            ob.status = "failed"
            ob.role = "c04-pm-digest-not-injective"
            ob.counterexample = {"first_key": k, "other_key": k, "model": vals}
            failures_pm.append((ob, (k, k, vals)))
        else:
            ob.status = "inconclusive"
            rep.inconcl("%s: %s" % (ob.name, st_))
    # (b) different first keys: never equal
    for k1, k2 in itertools.combinations(order, 2):
        ob = rep.add(core.Obligation("c04_pm_decode_key_%s_vs_%s" % (k1, k2), "smt", "an encoding whose first entry is %s never equals one whose first entry is %s" % (k1, k2)))
        script = head + "(assert (= (str.++ %s r) (str.++ %s s)))\n(check-sat)\n(get-value (v w r s))\n" % (template_expr(tpl[k1], "v"), template_expr(tpl[k2], "w"))
        import time as _t
        t0 = _t.time()
        st_, vals = cvc5_strings(script, tmo)
        ob.solver_s = _t.time() - t0
        if st_ == "unsat":
            ob.status = "discharged"
        elif st_ == "sat":
            ob.status = "failed"
            ob.role = "c04-pm-digest-not-injective"
            ob.counterexample = {"first_key": k1, "other_key": k2, "model": vals}
            failures_pm.append((ob, (k1, k2, vals)))
        else:
            ob.status = "inconclusive"
            rep.inconcl("%s: %s" % (ob.name, st_))
    # (c) a non-empty encoding is not the empty one: every template contributes at least one byte (values are non-empty)
    rep.notes.append("protocol message digest: injectivity on well-formed parts follows by induction on the number of entries from the decode lemmas (a), (b) and the template structure")


def pm_candidates(info):
    """pairs of well-formed messages to try natively: the solver's strings when they parse as entries, then a generic battery"""
    hx = lambda t: t.encode().hex()
    rows = []
    keys = ["SnapshotDigest", "CardanoTransactionsMerkleRoot", "NextAggregateVerificationKey", "NextProtocolParameters", "CurrentEpoch", "LatestBlockNumber",
            "CardanoStakeDistributionEpoch", "CardanoDatabaseMerkleRoot", "NextSnarkAggregateVerificationKey"]
    if info and info[0] == "boundary":
        # x is both (non-empty hex u).(sorted entries) and (non-empty sorted entries): two messages sharing a first entry whose value absorbs u
        names, x, order = info[1], info[2]["x"], info[2]["order"]

        def parses(sx, start=0):
            """all ways to read sx as key-sorted entries with non-empty hex values"""
            if sx == "":
                return [[]]
            res = []
            for i in range(start, len(order)):
                nm = names[order[i]]
                if sx.startswith(nm):
                    rest = sx[len(nm):]
                    j = 0
                    while j < len(rest) and rest[j] in "0123456789abcdef":
                        j += 1
                        for tail in parses(rest[j:], i + 1):
                            res.append([(order[i], rest[:j])] + tail)
            return res[:20]
        for e1 in parses(x):
            for cut in range(1, len(x) + 1):
                u = x[:cut]
                if any(ch not in "0123456789abcdef" for ch in u):
                    break
                for e2 in parses(x[cut:]):
                    used = [k for k, _ in e1 + e2]
                    firsts = [k for k in order if order.index(k) < min(order.index(k_) for k_ in used)] if used else order[:1]
                    for k0 in firsts[:2]:
                        a = {k0: hx("0" + u)}
                        a.update({k: hx(v) for k, v in e2})
                        b = {k0: hx("0")}
                        b.update({k: hx(v) for k, v in e1})
                        rows.append({"a": a, "b": b})
    if info and info[0] in keys + ["CardanoBlocksTransactionsMerkleRoot", "CardanoBlocksTransactionsBlockNumberOffset", "CardanoStakeDistributionMerkleRoot"] and info[2]:
        k1, k2, vals = info
        if vals.get("v") and vals.get("w") and not vals.get("r") and not vals.get("s"):
            rows.append({"a": {k1: hx(vals["v"])}, "b": {k2: hx(vals["w"])}})
    for k1, k2 in itertools.combinations(keys, 2):
        rows.append({"a": {k1: hx("ab12")}, "b": {k2: hx("ab12")}})
        rows.append({"a": {k1: hx("ab")}, "b": {k1: hx("a"), k2: hx("b")}})
        rows.append({"a": {k1: hx("a"), k2: hx("bc")}, "b": {k1: hx("ab"), k2: hx("c")}})
        rows.append({"a": {k1: hx("ab"), k2: hx("cd")}, "b": {k1: hx("cd"), k2: hx("ab")}})
    return rows[:160]


# ---- certificate -> API message -> certificate -------------------------------------------------------------------------------------
def flatten_leaves(v, path=""):
    """[(path, term)] of every solver term in a value"""
    out = []
    if isinstance(v, Abs):
        out.append((path, v.term))
    elif isinstance(v, Agg):
        for i, f in enumerate(v.fields):
            out += flatten_leaves(f, "%s.%d" % (path, i))
    elif isinstance(v, EnumV):
        out.append((path + ".discr", v.discr if z3.is_expr(v.discr) else z3.IntVal(v.discr)))
        for k in sorted(v.payloads, key=str):
            for i, f in enumerate(v.payloads[k]):
                out += flatten_leaves(f, "%s.%s.%d" % (path, k, i))
    elif z3.is_expr(v):
        out.append((path, v))
    return out


class RoundTripCtx(Ctx):
    """conversion code: encoders as in Ctx, plus the matching decoders (decode(encode(k)) = k, Ok on every encoding)"""

    def __init__(self, prog):
        super().__init__(prog)
        self.I.models = [self.rt_models] + self.I.models
        self.DECOK = {}

    def rt_models(self, I, st, caller, func, args, argtys, dest_ty):
        f = MM.strip_std_paths(func)
        if re.match(r"^String::new$", f):
            return MM.ret(st, B(z3.StringVal("")))
        if re.match(r"^String::is_empty$|^str::is_empty$|core::str::<impl str>::is_empty$", f):
            t = self.bytes_of(I, st, args[0])
            return MM.ret(st, z3.Length(t) == 0)
        m = re.search(r"ProtocolKey::<(.*)>::(to_json_hex|to_bytes_hex|to_bytes)$", f)
        if m:
            k = MM.deref_all(I, st, args[0])
            kind = key_kind(m.group(1)) + "_" + m.group(2)
            t = self.enc(st, kind, k.term)
            st.assume(z3.Length(t) >= 1)
            return MM.ret(st, EnumV("Result", 0, {0: (B(t),)}))
        m = re.match(r"^<(?:\w+::)*ProtocolKey<(.*)> as TryFrom<String>>::try_from$", f) or re.match(r"^<String as TryInto<(?:\w+::)*ProtocolKey<(.*)>>>::try_into$", f)
        if m:
            return self.decode(I, st, m.group(1), args[0], None)
        m = re.search(r"ProtocolKey::<(.*)>::(from_json_hex|from_bytes_hex)$", f)
        if m:
            return self.decode(I, st, m.group(1), args[0], m.group(2).replace("from", "to"))
        return None

    def decode(self, I, st, inner, sarg, how):
        s_ = self.bytes_of(I, st, sarg)
        base = key_kind(inner)
        kinds = [k for k in self.ENC if k.startswith(base + "_") and (how is None or k.endswith(how))]
        if len(kinds) != 1:
            # which encoding the TryFrom<String> impl expects is read from the macro-generated impl: json hex unless the type says bytes
            kinds = [k for k in kinds if k.endswith("to_json_hex")] or kinds
        if not kinds:
            raise Unencodable("decoder for %s without a matching encoder (encoders seen: %s)" % (inner, list(self.ENC)))
        e, d = self.ENC[kinds[0]]
        ok = z3.Function("decodes_" + kinds[0], S, z3.BoolSort())
        st.trace = st.trace + (("decode", kinds[0], s_),)
        return MM.ret(st, EnumV("Result", z3.If(ok(s_), 0, 1), {0: (Abs("key", d(s_)),), 1: (Opaque("decode error"),)}))


def round_trip(prog, rep, tmo, failures_rt):
    ctx = RoundTripCtx(prog)
    I = ctx.I
    cert, sb = build_certificate(ctx, "c", 1)
    V = sb.vars
    f_to = prog.find_one(r"messages/certificate\.rs.*>::try_from$", param_regex=r"\(_1: (\w+::)*Certificate\)")
    f_back = prog.find_one(r"messages/certificate\.rs.*>::try_from$", param_regex=r"\(_1: (\w+::)*CertificateMessage\)")
    st = MI.State()
    for c in sb.constraints:
        st.assume(c)
    outs = I.call_fn(f_to, [cert], st)
    npaths = 0
    bad = []
    lost = []
    src = dict(flatten_leaves(cert, "cert"))
    for o in outs:
        if o.kind != "return":
            raise Unencodable("Certificate -> CertificateMessage: %s %s" % (o.kind, o.msg))
        if not (isinstance(o.value.discr, int) and o.value.discr == 0):
            raise Unencodable("Certificate -> CertificateMessage: encoding failed on a path (encoders are assumed total)")
        msg = o.value.payloads[0][0]
        for o2 in I.call_fn(f_back, [msg], o.state):
            if o2.kind != "return":
                raise Unencodable("CertificateMessage -> Certificate: %s %s" % (o2.kind, o2.msg))
            npaths += 1
            # every decoder was applied to an encoding produced on this path: it succeeds and inverts the encoder
            facts = []
            for ev in o2.state.trace:
                if ev[0] == "decode":
                    e, d = ctx.ENC[ev[1]]
                    facts.append(z3.Function("decodes_" + ev[1], S, z3.BoolSort())(ev[2]))
            dv = o2.value.discr
            okc = (dv == 0) if z3.is_expr(dv) else z3.BoolVal(dv == 0)
            pc = list(o2.pc) + ctx.axioms + facts
            if not z3.is_expr(dv) and dv != 0:
                r = smt.check(pc, timeout_s=tmo)
                if r.status != "unsat":
                    lost.append(("conversion back fails", r.status))
                continue
            r = smt.check(pc + [z3.Not(okc)], timeout_s=tmo)
            if r.status != "unsat":
                lost.append(("conversion back fails", r.status))
                continue
            back = o2.value.payloads[0][0]
            dst = dict(flatten_leaves(back, "cert"))
            for pth, t in src.items():
                # leaves of inactive enum variants / absent options carry no information
                if pth not in dst:
                    bad.append((pth, "missing after the round trip", pc))
                    continue
                if z3.eq(t, dst[pth]):
                    continue
                bad.append((pth, dst[pth], pc + [t != dst[pth]]))
    ob = rep.add(core.Obligation("c04_roundtrip_certificate_message_certificate", "smt",
                                 "Certificate -> CertificateMessage -> Certificate returns Ok with every field equal to the original (hence the same hash, signed message and signature), for every certificate; the JSON text layer is the identity",
                                 {"paths": npaths}))
    status = "discharged" if npaths else "inconclusive"
    names = [n for n, t in ctx.db.struct_fields("Certificate")]
    for pth, what, q in bad:
        if isinstance(what, str):
            r = smt.check(q + live_filter(pth, src), timeout_s=tmo)
            if r.status == "unsat":
                continue  # the leaf belongs to a variant that is not the active one on this path
            status = "failed"
            ob.counterexample = {"field_path": pth, "field": field_name(pth, names), "what": what}
            break
        # only live leaves count: compare under the path condition, restricted to the active variant by construction of the result
        r = smt.check(q + live_filter(pth, src), timeout_s=tmo)
        ob.solver_s += r.seconds
        if r.status == "sat":
            status = "failed"
            ob.counterexample = {"field_path": pth, "field": field_name(pth, names), "original": str(r.model.eval(src[pth], model_completion=True))[:80], "after_round_trip": str(r.model.eval(what, model_completion=True))[:80]}
            break
        if r.status != "unsat":
            status = "inconclusive"
            rep.inconcl("round trip %s: %s" % (pth, r.reason))
    if lost and status == "discharged":
        status = "failed"
        ob.counterexample = {"what": lost[0][0]}
    ob.status = status
    if status == "failed":
        ob.role = "c04-roundtrip"
        failures_rt.append(ob)
    rep.functions += sorted(set("%s -> %s" % (a, b) for a, b in I.calls_seen.items() if b.startswith("mir:")))


def field_name(pth, names):
    segs = pth.split(".")
    try:
        return names[int(segs[1])]
    except Exception:
        return pth


def live_filter(pth, src):
    """conditions making the leaf at `pth` part of the value: the discriminants on the way select its variant"""
    conds = []
    segs = pth.split(".")
    for i in range(1, len(segs) - 1):
        pre = ".".join(segs[:i])
        if pre + ".discr" in src and segs[i] not in ("discr",):
            try:
                conds.append(src[pre + ".discr"] == int(segs[i]))
            except ValueError:
                pass
    return conds
