"""C04 — certificates are tamper evident (hash sensitivity), protocol message digests are injective on well-formed parts,
and the certificate <-> API message conversion preserves every hashed field.

Engine B: the MIR of Certificate::try_compute_hash, CertificateMetadata::compute_hash, StakeDistributionParty::compute_hash,
ProtocolParameters::compute_hash, SignedEntityType::feed_hash and ProtocolMessage::compute_hash is executed symbolically; the
SHA-256 hasher is the list of byte strings fed to it, byte strings are terms of the solver's string theory (unbounded
length), the hash is an injective uninterpreted function of the concatenation (collision resistance).
"""
import itertools
import json
import os
import re
import subprocess

import z3

from lib import core, mir, smt
from mir2smt import interp as MI
from mir2smt import models as MM
from mir2smt import container_models as CM
from mir2smt import fmt_models as FM
from mir2smt import sstr
from mir2smt import symval
from mir2smt.interp import Abs, Agg, EnumV, Ref, Opaque, Outcome, Unencodable

SRC = ["mithril-common/src/entities/certificate.rs", "mithril-common/src/entities/certificate_metadata.rs", "mithril-common/src/entities/protocol_message.rs",
       "mithril-common/src/entities/protocol_parameters.rs", "mithril-common/src/entities/signed_entity_type.rs", "mithril-common/src/messages/certificate.rs"]
U64 = 2 ** 64
S = z3.StringSort()
# chrono::DateTime<Utc> spans about +-262000 years; nanoseconds since the Unix epoch as a mathematical integer
CHRONO_NS = 262000 * 366 * 86400 * 10 ** 9


def B(term):
    return Abs("bytes", term)


class Ctx:
    def __init__(self, prog):
        self.prog = prog
        self.I = MI.Interp(prog, models=[self.models, CM.map_models, CM.container_models, FM.fmt_models, MM.hof_models, MM.abs_models, MM.core_models], unroll=6, max_paths=20000)
        self.I.enum_tables.update(MM.ENUM_TABLE_EXTRA)
        self.db = symval.TypeDB([os.path.join(core.REPO, "mithril-common", "src")])
        Int = z3.IntSort()
        self.SHA = z3.Function("sha256", S, S)
        self.SHAinv = z3.Function("sha256_preimage", S, S)
        self.HEX = z3.Function("hex_encode", S, S)
        self.HEXinv = z3.Function("hex_decode", S, S)
        self.BE = {n: z3.Function("be%d" % n, Int, S) for n in (4, 8)}
        self.BEinv = {n: z3.Function("be%d_inv" % n, S, Int) for n in (4, 8)}
        self.ENC = {}
        self.FIX = z3.Function("u8f24_from_f64", Int, Int)
        self.axioms = []

    # -- uninterpreted encoders with their contracts ------------------------------------------------
    def sha(self, st, x):
        t = self.SHA(x)
        self.axioms.append(z3.And(self.SHAinv(t) == x, z3.Length(t) == 32))
        return t

    def hexenc(self, st, x):
        t = self.HEX(x)
        self.axioms.append(z3.And(self.HEXinv(t) == x, z3.Length(t) == 2 * z3.Length(x)))
        return t

    def be(self, st, n, x):
        x = z3.If(x < 0, x + 2 ** (8 * n), x)  # two's complement of the signed inputs (timestamps)
        t = self.BE[n](x)
        self.axioms.append(z3.And(self.BEinv[n](t) == x, z3.Length(t) == n))
        return t

    def enc(self, st, kind, k, minlen=1):
        """injective, non-empty encoding of a key-like value (serde / to_bytes of third-party key types)"""
        if kind not in self.ENC:
            self.ENC[kind] = (z3.Function("encode_" + kind, z3.IntSort(), S), z3.Function("decode_" + kind, S, z3.IntSort()))
        e, d = self.ENC[kind]
        t = e(k)
        self.axioms.append(z3.And(d(t) == k, z3.Length(t) >= minlen))
        return t

    def bytes_of(self, I, st, v):
        v = MM.deref_all(I, st, v)
        if isinstance(v, Abs) and v.sort == "bytes":
            return v.term
        if isinstance(v, sstr.SymStr):
            atoms = getattr(v, "atoms", None)
            if atoms is not None and all(a[0] == "lit" for a in atoms):
                return z3.StringVal(b"".join(a[1] for a in atoms).decode())
        if isinstance(v, Agg) and v.kind in ("array", "vec") and all(z3.is_expr(x) and z3.is_int_value(z3.simplify(x)) for x in v.fields):
            return z3.StringVal("".join(chr(z3.simplify(x).as_long()) for x in v.fields))
        raise Unencodable("bytes of %r" % (v,))

    def models(self, I, st, caller, func, args, argtys, dest_ty):
        f = MM.strip_std_paths(func)
        if re.match(r"^<(Sha256|CoreWrapper<.*>|D) as (\w+::)*Digest>::new$", f):
            return MM.ret(st, Agg("hasher", None, ()))
        if re.match(r"^<(Sha256|CoreWrapper<.*>|D) as (\w+::)*(Digest|Update)>::update(::<.*>)?$", f):
            h = MM.deref_all(I, st, args[0])
            I.store(st, args[0], Agg("hasher", None, tuple(h.fields) + (self.bytes_of(I, st, args[1]),)))
            return MM.ret(st, MI.UNIT)
        if re.match(r"^<(Sha256|CoreWrapper<.*>|D) as (\w+::)*(Digest|FixedOutput)>::(finalize|finalize_fixed)$", f):
            h = MM.deref_all(I, st, args[0])
            parts = list(h.fields)
            pre = z3.Concat(*parts) if len(parts) > 1 else (parts[0] if parts else z3.StringVal(""))
            st.trace = st.trace + (("hash", tuple(parts), None),)
            return MM.ret(st, B(self.sha(st, pre)))
        if re.match(r"^hex::encode::<", f):
            return MM.ret(st, B(self.hexenc(st, self.bytes_of(I, st, args[0]))))
        if re.search(r"String::as_bytes$|String::as_str$|<String as Deref>::deref$|<String as AsRef<.*>>::as_ref$|str::as_bytes$", f):
            return MM.ret(st, args[0])
        if re.match(r"^<GenericArray<.*> as Into<\[u8; 32\]>>::into$", f) or re.match(r"^<\[u8; 32\] as From<GenericArray<.*>>>::from$", f):
            return MM.ret(st, args[0])
        m = re.match(r"^core::num::<impl (u64|i64|u32|usize)>::to_be_bytes$", f)
        if m:
            return MM.ret(st, B(self.be(st, 4 if m.group(1) == "u32" else 8, args[0])))
        if re.search(r"Epoch::to_be_bytes$|BlockNumber::to_be_bytes$", f):
            return None
        if re.search(r"DateTime::<(chrono::)?Utc>::timestamp_nanos_opt$", f):
            t = MM.deref_all(I, st, args[0])
            inr = z3.And(t.term >= -2 ** 63, t.term < 2 ** 63)
            return MM.ret(st, EnumV("Option", z3.If(inr, 1, 0), {1: (t.term,)}))
        if re.search(r"ProtocolParameters::phi_f_fixed$", f):
            pp = MM.deref_all(I, st, args[0])
            names = [n for n, t in self.db.struct_fields("ProtocolParameters")]
            phi = pp.fields[names.index("phi_f")]
            v = self.FIX(phi.term)
            st.assume(z3.And(v >= 0, v < 2 ** 32))
            return MM.ret(st, Abs("u8f24", v))
        if re.search(r"FixedU32::<.*>::to_be_bytes$|FixedU32<.*>::to_be_bytes$", f):
            return MM.ret(st, B(self.be(st, 4, MM.deref_all(I, st, args[0]).term)))
        m = re.search(r"ProtocolKey::<(.*)>::(to_json_hex|to_bytes_hex|to_bytes)$", f)
        if m:
            k = MM.deref_all(I, st, args[0])
            kind = re.sub(r"\W+", "_", m.group(1))[:40] + "_" + m.group(2)
            return MM.ret(st, EnumV("Result", 0, {0: (B(self.enc(st, kind, k.term)),)}))
        if re.match(r"^<.* as (Clone|ToOwned)>::(clone|to_owned)$", f):
            return MM.ret(st, MM.deref_all(I, st, args[0]))
        return None


ABSTRACT = {
    r"String": lambda prefix, sb: B(z3.String(prefix)),
    r"ProtocolKey<.*>|ProtocolAggregateVerificationKey.*|ProtocolMultiSignature|GenesisEd25519Signature|Ed25519Signature|ProtocolAncillary.*Data": "key",
    r"DateTime<Utc>": "time",
}


def leaf_paths(v, path=()):
    """(path, kind) of every leaf of a symbolic certificate value; kind in bytes|int|fp|key|time|enum"""
    if isinstance(v, Abs):
        yield path, {"bytes": "bytes", "key": "key", "time": "time"}.get(v.sort, v.sort)
    elif isinstance(v, Agg):
        for i, f in enumerate(v.fields):
            yield from leaf_paths(f, path + (i,))
    elif isinstance(v, EnumV):
        if z3.is_expr(v.discr):
            yield path + ("discr",), "discr"
        for k in sorted(v.payloads, key=str):
            for i, f in enumerate(v.payloads[k]):
                yield from leaf_paths(f, path + (("variant", k), i))
    elif z3.is_expr(v):
        yield path, ("fp" if z3.is_fp(v) else "bool" if z3.is_bool(v) else "int")


def get_at(v, path):
    for p in path:
        if p == "discr":
            return v.discr
        if isinstance(p, tuple):
            v = v.payloads[p[1]]
        elif isinstance(v, tuple):
            v = v[p]
        else:
            v = v.fields[p]
    return v


def set_at(v, path, new):
    if not path:
        return new
    p = path[0]
    if p == "discr":
        return EnumV(v.name, new, v.payloads)
    if isinstance(p, tuple):
        pl = dict(v.payloads)
        tup = list(pl[p[1]])
        i = path[1]
        tup[i] = set_at(tup[i], path[2:], new)
        pl[p[1]] = tuple(tup)
        return EnumV(v.name, v.discr, pl)
    fs = list(v.fields)
    fs[p] = set_at(fs[p], path[1:], new)
    return Agg(v.kind, v.name, tuple(fs))


def subst_value(v, pairs):
    if isinstance(v, Abs):
        return Abs(v.sort, z3.substitute(v.term, *pairs))
    if isinstance(v, Agg):
        return Agg(v.kind, v.name, tuple(subst_value(f, pairs) for f in v.fields))
    if isinstance(v, EnumV):
        d = z3.substitute(v.discr, *pairs) if z3.is_expr(v.discr) else v.discr
        return EnumV(v.name, d, {k: tuple(subst_value(f, pairs) for f in pl) for k, pl in v.payloads.items()})
    if z3.is_expr(v):
        return z3.substitute(v, *pairs)
    return v


PM_KEYS_DEFAULT = ("SnapshotDigest", "NextAggregateVerificationKey", "NextProtocolParameters", "CurrentEpoch")


def build_certificate(ctx, prefix, nsigners, pm_keys=PM_KEYS_DEFAULT):
    """a fully symbolic Certificate; returns (value, builder) — builder.vars maps leaf names to solver variables"""
    I = ctx.I
    keytbl = I.load_enum("ProtocolMessagePartKey")

    def string(p, sb):
        v = z3.String(p)
        sb.vars[p] = v
        return B(v)

    def time(p, sb):
        v = z3.Int(p)
        sb.vars[p] = v
        sb.constraints.append(z3.And(v >= -CHRONO_NS, v <= CHRONO_NS))
        return Abs("time", v)

    def pmsg(p, sb):
        ents = []
        for kname in sorted(pm_keys, key=lambda k_: I.variant_index("ProtocolMessagePartKey", k_)):
            v = z3.String("%s.part.%s" % (p, kname))
            sb.vars["%s.part.%s" % (p, kname)] = v
            ents.append(Agg("tuple", None, (EnumV("ProtocolMessagePartKey", I.variant_index("ProtocolMessagePartKey", kname), {}), B(v))))
        fields = {"message_parts": Agg("btreemap", None, tuple(ents)), "hash_scheme": EnumV("ProtocolMessageHashScheme", 0, {})}
        return Agg("adt", "ProtocolMessage", tuple(fields[n] for n, t in ctx.db.struct_fields("ProtocolMessage")))
    abstract = {r"String": string, r"DateTime<Utc>": time, r"ProtocolMessage": pmsg, r"f64": "f64",
                r"ProtocolKey<.*>|ProtocolAggregateVerificationKey.*|ProtocolMultiSignature|GenesisEd25519Signature|Ed25519Signature|ProtocolAncillary.*Data": "key"}
    sb = symval.SymBuilder(ctx.db, I, abstract=abstract, vec_lengths=[(r".*\.signers", nsigners)])
    return sb.make("Certificate", prefix), sb
