"""C04 — certificates are tamper evident (hash sensitivity), protocol message digests are injective on well-formed parts,
and the certificate <-> API message conversion preserves every hashed field.

Engine B: the MIR of Certificate::try_compute_hash, CertificateMetadata::compute_hash, StakeDistributionParty::compute_hash,
ProtocolParameters::compute_hash, SignedEntityType::feed_hash and ProtocolMessage::compute_hash is executed symbolically; the
SHA-256 hasher is the list of byte strings fed to it, byte strings are terms of the solver's string theory (unbounded
length), the hash is an injective uninterpreted function of the concatenation (collision resistance).
"""
import itertools
import json
import os
import re
import subprocess

import z3

from lib import core, mir, smt
from mir2smt import interp as MI
from mir2smt import models as MM
from mir2smt import container_models as CM
from mir2smt import fmt_models as FM
from mir2smt import sstr
from mir2smt import symval
from mir2smt.interp import Abs, Agg, EnumV, Ref, Opaque, Outcome, Unencodable

SRC = ["mithril-common/src/entities/certificate.rs", "mithril-common/src/entities/certificate_metadata.rs", "mithril-common/src/entities/protocol_message.rs",
       "mithril-common/src/entities/protocol_parameters.rs", "mithril-common/src/entities/signed_entity_type.rs", "mithril-common/src/messages/certificate.rs"]
U64 = 2 ** 64
S = z3.StringSort()
# chrono::DateTime<Utc> spans about +-262000 years; nanoseconds since the Unix epoch as a mathematical integer
CHRONO_NS = 262000 * 366 * 86400 * 10 ** 9


def B(term):
    return Abs("bytes", term)


class Ctx:
    def __init__(self, prog):
        self.prog = prog
        self.I = MI.Interp(prog, models=[self.models, CM.map_models, CM.container_models, FM.fmt_models, MM.hof_models, MM.abs_models, MM.core_models], unroll=6, max_paths=20000)
        self.I.enum_tables.update(MM.ENUM_TABLE_EXTRA)
        self.db = symval.TypeDB([os.path.join(core.REPO, "mithril-common", "src")])
        Int = z3.IntSort()
        self.SHA = z3.Function("sha256", S, S)
        self.SHAinv = z3.Function("sha256_preimage", S, S)
        self.HEX = z3.Function("hex_encode", S, S)
        self.HEXinv = z3.Function("hex_decode", S, S)
        self.BE = {n: z3.Function("be%d" % n, Int, S) for n in (4, 8)}
        self.BEinv = {n: z3.Function("be%d_inv" % n, S, Int) for n in (4, 8)}
        self.ENC = {}
        self.FIX = z3.Function("u8f24_from_f64", Int, Int)
        self.axioms = []

    # -- uninterpreted encoders with their contracts ------------------------------------------------
    def sha(self, st, x):
        t = self.SHA(x)
        self.axioms.append(z3.And(self.SHAinv(t) == x, z3.Length(t) == 32))
        return t

    def hexenc(self, st, x):
        t = self.HEX(x)
        self.axioms.append(z3.And(self.HEXinv(t) == x, z3.Length(t) == 2 * z3.Length(x)))
        return t

    def be(self, st, n, x):
        x = z3.If(x < 0, x + 2 ** (8 * n), x)  # two's complement of the signed inputs (timestamps)
        t = self.BE[n](x)
        self.axioms.append(z3.And(self.BEinv[n](t) == x, z3.Length(t) == n))
        return t

    def enc(self, st, kind, k, minlen=1):
        """injective, non-empty encoding of a key-like value (serde / to_bytes of third-party key types)"""
        if kind not in self.ENC:
            self.ENC[kind] = (z3.Function("encode_" + kind, z3.IntSort(), S), z3.Function("decode_" + kind, S, z3.IntSort()))
        e, d = self.ENC[kind]
        t = e(k)
        self.axioms.append(z3.And(d(t) == k, z3.Length(t) >= minlen))
        return t

    def bytes_of(self, I, st, v):
        v = MM.deref_all(I, st, v)
        if isinstance(v, Abs) and v.sort == "bytes":
            return v.term
        if isinstance(v, sstr.SymStr):
            atoms = getattr(v, "atoms", None)
            if atoms is not None and all(a[0] == "lit" for a in atoms):
                return z3.StringVal(b"".join(a[1] for a in atoms).decode())
        if isinstance(v, Agg) and v.kind in ("array", "vec") and all(z3.is_expr(x) and z3.is_int_value(z3.simplify(x)) for x in v.fields):
            return z3.StringVal("".join(chr(z3.simplify(x).as_long()) for x in v.fields))
        raise Unencodable("bytes of %r" % (v,))

    def models(self, I, st, caller, func, args, argtys, dest_ty):
        f = MM.strip_std_paths(func)
        if re.match(r"^<(Sha256|CoreWrapper<.*>|D) as (\w+::)*Digest>::new$", f):
            return MM.ret(st, Agg("hasher", None, ()))
        if re.match(r"^<(Sha256|CoreWrapper<.*>|D) as (\w+::)*(Digest|Update)>::update(::<.*>)?$", f):
            h = MM.deref_all(I, st, args[0])
            I.store(st, args[0], Agg("hasher", None, tuple(h.fields) + (self.bytes_of(I, st, args[1]),)))
            return MM.ret(st, MI.UNIT)
        if re.match(r"^<(Sha256|CoreWrapper<.*>|D) as (\w+::)*(Digest|FixedOutput)>::(finalize|finalize_fixed)$", f):
            h = MM.deref_all(I, st, args[0])
            parts = list(h.fields)
            pre = z3.Concat(*parts) if len(parts) > 1 else (parts[0] if parts else z3.StringVal(""))
            st.trace = st.trace + (("hash", tuple(parts), None),)
            return MM.ret(st, B(self.sha(st, pre)))
        if re.match(r"^hex::encode::<", f):
            return MM.ret(st, B(self.hexenc(st, self.bytes_of(I, st, args[0]))))
        if re.search(r"String::as_bytes$|String::as_str$|<String as Deref>::deref$|<String as AsRef<.*>>::as_ref$|str::as_bytes$", f):
            return MM.ret(st, args[0])
        if re.match(r"^<GenericArray<.*> as Into<\[u8; 32\]>>::into$", f) or re.match(r"^<\[u8; 32\] as From<GenericArray<.*>>>::from$", f):
            return MM.ret(st, args[0])
        m = re.match(r"^core::num::<impl (u64|i64|u32|usize)>::to_be_bytes$", f)
        if m:
            return MM.ret(st, B(self.be(st, 4 if m.group(1) == "u32" else 8, args[0])))
        if re.search(r"Epoch::to_be_bytes$|BlockNumber::to_be_bytes$", f):
            return None
        if re.search(r"DateTime::<(chrono::)?Utc>::timestamp_nanos_opt$", f):
            t = MM.deref_all(I, st, args[0])
            inr = z3.And(t.term >= -2 ** 63, t.term < 2 ** 63)
            return MM.ret(st, EnumV("Option", z3.If(inr, 1, 0), {1: (t.term,)}))
        if re.search(r"DateTime::<(chrono::)?Utc>::timestamp$", f):
            t = MM.deref_all(I, st, args[0])
            return MM.ret(st, t.term / 10 ** 9)  # floor division: seconds since the epoch (SMT-LIB div with a positive divisor = floor)
        if re.search(r"DateTime::<(chrono::)?Utc>::timestamp_subsec_nanos$", f):
            t = MM.deref_all(I, st, args[0])
            return MM.ret(st, t.term % 10 ** 9)
        if re.search(r"ProtocolParameters::phi_f_fixed$", f):
            pp = MM.deref_all(I, st, args[0])
            names = [n for n, t in self.db.struct_fields("ProtocolParameters")]
            phi = pp.fields[names.index("phi_f")]
            v = self.FIX(phi.term)
            st.assume(z3.And(v >= 0, v < 2 ** 32))
            return MM.ret(st, Abs("u8f24", v))
        if re.search(r"FixedU32::<.*>::to_be_bytes$|FixedU32<.*>::to_be_bytes$", f):
            return MM.ret(st, B(self.be(st, 4, MM.deref_all(I, st, args[0]).term)))
        m = re.search(r"ProtocolKey::<(.*)>::(to_json_hex|to_bytes_hex|to_bytes)$", f)
        if m:
            k = MM.deref_all(I, st, args[0])
            kind = re.sub(r"\W+", "_", m.group(1))[:40] + "_" + m.group(2)
            return MM.ret(st, EnumV("Result", 0, {0: (B(self.enc(st, kind, k.term)),)}))
        if re.match(r"^<.* as (Clone|ToOwned)>::(clone|to_owned)$", f):
            return MM.ret(st, MM.deref_all(I, st, args[0]))
        return None


ABSTRACT = {
    r"String": lambda prefix, sb: B(z3.String(prefix)),
    r"ProtocolKey<.*>|ProtocolAggregateVerificationKey.*|ProtocolMultiSignature|GenesisEd25519Signature|Ed25519Signature|ProtocolAncillary.*Data": "key",
    r"DateTime<Utc>": "time",
}


def leaf_paths(v, path=()):
    """(path, kind) of every leaf of a symbolic certificate value; kind in bytes|int|fp|key|time|enum"""
    if isinstance(v, Abs):
        yield path, {"bytes": "bytes", "key": "key", "time": "time"}.get(v.sort, v.sort)
    elif isinstance(v, Agg):
        for i, f in enumerate(v.fields):
            yield from leaf_paths(f, path + (i,))
    elif isinstance(v, EnumV):
        if z3.is_expr(v.discr):
            yield path + ("discr",), "discr"
        for k in sorted(v.payloads, key=str):
            for i, f in enumerate(v.payloads[k]):
                yield from leaf_paths(f, path + (("variant", k), i))
    elif z3.is_expr(v):
        yield path, ("fp" if z3.is_fp(v) else "bool" if z3.is_bool(v) else "int")


def get_at(v, path):
    for p in path:
        if p == "discr":
            return v.discr
        if isinstance(p, tuple):
            v = v.payloads[p[1]]
        elif isinstance(v, tuple):
            v = v[p]
        else:
            v = v.fields[p]
    return v


def set_at(v, path, new):
    if not path:
        return new
    p = path[0]
    if p == "discr":
        return EnumV(v.name, new, v.payloads)
    if isinstance(p, tuple):
        pl = dict(v.payloads)
        tup = list(pl[p[1]])
        i = path[1]
        tup[i] = set_at(tup[i], path[2:], new)
        pl[p[1]] = tuple(tup)
        return EnumV(v.name, v.discr, pl)
    fs = list(v.fields)
    fs[p] = set_at(fs[p], path[1:], new)
    return Agg(v.kind, v.name, tuple(fs))


def subst_value(v, pairs):
    if isinstance(v, Abs):
        return Abs(v.sort, z3.substitute(v.term, *pairs))
    if isinstance(v, Agg):
        return Agg(v.kind, v.name, tuple(subst_value(f, pairs) for f in v.fields))
    if isinstance(v, EnumV):
        d = z3.substitute(v.discr, *pairs) if z3.is_expr(v.discr) else v.discr
        return EnumV(v.name, d, {k: tuple(subst_value(f, pairs) for f in pl) for k, pl in v.payloads.items()})
    if z3.is_expr(v):
        return z3.substitute(v, *pairs)
    return v


PM_KEYS_DEFAULT = ("SnapshotDigest", "NextAggregateVerificationKey", "NextProtocolParameters", "CurrentEpoch")


def build_certificate(ctx, prefix, nsigners, pm_keys=PM_KEYS_DEFAULT):
    """a fully symbolic Certificate; returns (value, builder) — builder.vars maps leaf names to solver variables"""
    I = ctx.I
    keytbl = I.load_enum("ProtocolMessagePartKey")

    def string(p, sb):
        v = z3.String(p)
        sb.vars[p] = v
        return B(v)

    def time(p, sb):
        v = z3.Int(p)
        sb.vars[p] = v
        sb.constraints.append(z3.And(v >= -CHRONO_NS, v <= CHRONO_NS))
        return Abs("time", v)

    def pmsg(p, sb):
        ents = []
        for kname in sorted(pm_keys, key=lambda k_: I.variant_index("ProtocolMessagePartKey", k_)):
            v = z3.String("%s.part.%s" % (p, kname))
            sb.vars["%s.part.%s" % (p, kname)] = v
            ents.append(Agg("tuple", None, (EnumV("ProtocolMessagePartKey", I.variant_index("ProtocolMessagePartKey", kname), {}), B(v))))
        fields = {"message_parts": Agg("btreemap", None, tuple(ents)), "hash_scheme": EnumV("ProtocolMessageHashScheme", 0, {})}
        return Agg("adt", "ProtocolMessage", tuple(fields[n] for n, t in ctx.db.struct_fields("ProtocolMessage")))
    abstract = {r"String": string, r"DateTime<Utc>": time, r"ProtocolMessage": pmsg, r"f64": "f64",
                r"ProtocolKey<.*>|ProtocolAggregateVerificationKey.*|ProtocolMultiSignature|GenesisEd25519Signature|Ed25519Signature|ProtocolAncillary.*Data": "key"}
    sb = symval.SymBuilder(ctx.db, I, abstract=abstract, vec_lengths=[(r".*\.signers", nsigners)])
    return sb.make("Certificate", prefix), sb


def liveness(name, vars_):
    """condition under which the leaf `name` is part of the certificate value (its enum variant / Option is the active one)"""
    conds = []
    segs = name.split(".")
    for i in range(1, len(segs)):
        pre = ".".join(segs[:i])
        if pre + ".is_some" in vars_ and segs[i] == "some":
            conds.append(vars_[pre + ".is_some"] == 1)
        if pre + ".discr" in vars_ and segs[i] != "discr":
            conds.append(("variant", pre, segs[i]))
    return conds


def relation(ctx, outs, h):
    """h is the hash returned by the symbolic run: Or over its Ok paths"""
    return z3.Or([z3.And(list(o.pc) + [h == o.value.payloads[0][0].term]) for o in outs if o.kind == "return" and o.value.discr == 0])


def run_hash(ctx, prog, nsigners, pm_keys=PM_KEYS_DEFAULT):
    cert, sb = build_certificate(ctx, "c", nsigners, pm_keys)
    f = prog.find_one(r"entities/certificate\.rs.*>::try_compute_hash$")
    st = MI.State()
    for c in sb.constraints:
        st.assume(c)
    ctx.I.frame_counter += 1
    fr = ctx.I.frame_counter
    st.mem[(fr, 0)] = cert
    n0 = len(ctx.axioms)
    outs = ctx.I.call_fn(f, [Ref(fr, 0, ())], st)
    bad = [o for o in outs if o.kind != "return"]
    if bad:
        raise Unencodable("try_compute_hash: %s %s" % (bad[0].kind, bad[0].msg))
    return cert, sb, outs, list(ctx.axioms[n0:])


QUICK_DIRECT = 10


ENUM_OF_PREFIX = [(r"\.signature$", "CertificateSignature"), (r"\.MultiSignature\.0$", "SignedEntityType")]


def variant_cond(ctx, V, pre, variant):
    for rx, en in ENUM_OF_PREFIX:
        if re.search(rx, pre):
            return V[pre + ".discr"] == ctx.I.variant_index(en, variant)
    raise Unencodable("enum at %s unknown" % pre)


def zstr_value(model, term):
    v = model.eval(term, model_completion=True)
    try:
        s = v.as_string()
    except Exception:
        s = str(v)
    # z3 escapes non-printable characters as \u{..}
    return re.sub(r"\\u\{([0-9a-fA-F]+)\}", lambda m: chr(int(m.group(1), 16)), s)


def native_cert_hash(rows):
    from checks.c17 import native_query
    lines = native_query(["cert_hash " + json.dumps(r).encode().hex() for r in rows])
    return [l for l in lines if l.startswith(("equal", "different", "unsupported"))]


def entity_spec(ctx, model, V, pre, discr_val):
    names = ctx.I.load_enum("SignedEntityType")
    names = list(names.keys()) if isinstance(names, dict) else list(names)
    vn = [n for n in names if ctx.I.variant_index("SignedEntityType", n) == discr_val][0]
    nums = []
    for k in sorted(V):
        if k.startswith(pre + "." + vn + "."):
            nums.append(str(model.eval(V[k], model_completion=True)))
    return ":".join([vn] + nums)


def run(tier, seed):
    rep = core.Report("C04", tier, seed)
    rep.trusted_base = ["rustc nightly MIR", "mir2smt interpreter + hasher / encoder call models", "z3 (sequence theory) for the certificate queries, cvc5 (strings) for the protocol-message code lemma"]
    rep.functions = ["source hashes: %s" % core.source_hashes(SRC)]
    NS = 1 if tier == "quick" else 2
    rep.bounds = {"signers_in_metadata": "%d and %d (list length difference)" % (NS, NS + 1), "string_lengths": "unbounded (solver sequence theory)",
                  "protocol_message_key_set_in_certificate_runs": list(PM_KEYS_DEFAULT)}
    rep.assumptions = [
        "SHA-256 is collision resistant: an injective uninterpreted function of the concatenation of everything fed to the hasher; hex::encode is injective and doubles the length",
        "u64/i64::to_be_bytes: injective, 8 bytes; U8F24::to_be_bytes: injective, 4 bytes",
        "ProtocolKey::to_json_hex / to_bytes_hex / to_bytes of keys, signatures and ancillary data: injective per type, non-empty, always Ok; an Ed25519 genesis signature encodes to 128 characters and a multi-signature's JSON-hex to more than 128",
        "protocol parameters are compared at the protocol's fixed-point precision: phi_f differs means U8F24::from_num(phi_f) differs (from_num is an uninterpreted function of the float)",
        "chrono::DateTime<Utc>: nanoseconds since the Unix epoch as an unbounded integer within chrono's +-262000 years; timestamp_nanos_opt is Some exactly inside i64",
        "default cargo features (no future_snark: no SNARK aggregate key, no dual genesis signature, legacy protocol-message hash scheme)",
    ]
    rep.outside = ["JSON text layer (serde_json): float formatting/parsing of phi_f, RFC 3339 timestamps", "differences in two or more fields at once (the property speaks of single fields; adjacent variable-length fields are not length-prefixed)",
                   "the `hash` field itself (it is the output)", "SHA-256 / hex internals"]
    rep.solver_vars = ["every string field: all contents, all lengths", "every integer field over its full machine range", "timestamps over chrono's full range", "signature kind, signed entity type and its beacon fields, presence of ancillary data"]
    try:
        path, dt = mir.dump("mithril-common")
    except Exception as e:
        rep.inconcl("MIR dump failed: %s" % e)
        return rep.finish()
    prog = MI.Program(open(path).read(), source_root=os.path.join(core.REPO, "mithril-common"))
    tmo = 60 if tier == "quick" else 300
    failures = []
    try:
        ctx = Ctx(prog)
        cert, sb, outs, axioms = run_hash(ctx, prog, NS)
        V = sb.vars
        h = z3.String("certificate_hash")
        phi1 = relation(ctx, outs, h)
        # shape facts of the encoders (see assumptions)
        shape = []
        for kind, (e, d) in ctx.ENC.items():
            pass
        base = [phi1] + axioms + list(sb.constraints)
        ob = rep.add(core.Obligation("c04_witness_hash", "smt", "witness: some certificate has a hash (the encoding is satisfiable)", {"paths": len(outs)}))
        r = smt.check([z3.Or([z3.And(list(o.pc)) for o in outs if o.kind == "return" and o.value.discr == 0])] + list(sb.constraints), timeout_s=tmo)
        ob.solver_s = r.seconds
        ob.status = "discharged" if r.status == "sat" else "inconclusive"
        if r.status != "sat":
            rep.inconcl("witness: %s" % r.status)

        def enc_shape(ax_list):
            """length facts about genesis-signature and multi-signature encodings found among the axiom instances"""
            facts = []
            for kind, (e, d) in ctx.ENC.items():
                for nm, var in V.items():
                    if z3.is_int(var) and nm.endswith(("GenesisSignature.0",)) and "Signature_to_bytes_hex" in kind or False:
                        pass
            return facts

        def query(name, desc, pairs, differ, extra=(), role=None, field=None, replay_builder=None):
            phi2 = z3.substitute(phi1, *pairs)
            ax2 = [z3.substitute(a, *pairs) for a in axioms]
            c2 = [z3.substitute(c, *pairs) for c in sb.constraints]
            ob = rep.add(core.Obligation(name, "smt", desc, {"vccs": 1}))
            shape_facts = sig_shape(pairs)
            r = smt.check(base + [phi2] + ax2 + c2 + [differ] + list(extra) + shape_facts, timeout_s=QUICK_DIRECT)
            ob.solver_s = r.seconds
            model = r.model if r.status == "sat" else None
            if r.status == "unsat":
                ob.status = "discharged"
                return ob
            if model is None:
                # the sequence solver does not produce models for these formulas: search with the aligned-atom decomposition
                import time as _t
                t0 = _t.time()
                m = counterexample_search(ctx, outs, pairs, list(sb.constraints) + c2 + [differ] + list(extra) + shape_facts, axioms, tmo)
                ob.solver_s += _t.time() - t0
                ob.bounds["decided_by"] = "aligned-atom decomposition (direct string query: %s)" % r.status
                if m is None:
                    ob.status = "discharged"
                    return ob
                if m == "unknown":
                    ob.status = "inconclusive"
                    rep.inconcl("%s: %s" % (name, r.reason or "solver gave up"))
                    return ob
                model = m
            ob.status = "failed"
            ob.role = role or ("c04-" + name[len("c04_"):])
            spec = replay_builder(model) if replay_builder else None
            ob.counterexample = {"field": field, "spec": spec}
            failures.append((ob, spec))
            return ob

        def sig_shape(pairs):
            facts = []
            for kind, (e, d) in ctx.ENC.items():
                terms = [V[n] for n in V if z3.is_int(V[n])] + [p[1] for p in pairs if z3.is_int(p[1])]
                if "to_bytes_hex" in kind and ("Signature" in kind or "ed25519" in kind.lower()):
                    for n in V:
                        if n.endswith("GenesisSignature.0"):
                            for t in [V[n]] + [p[1] for p in pairs if p[0] is V[n]]:
                                facts.append(z3.Length(e(t)) == 128)
                if "to_json_hex" in kind and "AggregateSignature" in kind:
                    for n in V:
                        if n.endswith("MultiSignature.1"):
                            for t in [V[n]] + [p[1] for p in pairs if p[0] is V[n]]:
                                facts.append(z3.Length(e(t)) > 128)
            return facts

        def fresh(var, name):
            if z3.is_string(var):
                return z3.String(name + "'")
            return z3.Int(name + "'")

        def live_of(name):
            conds = []
            for c in liveness(name, V):
                conds.append(variant_cond(ctx, V, c[1], c[2]) if isinstance(c, tuple) else c)
            return conds

        def simple_spec(field, kind):
            def build(model):
                x, y = V[field], fresh(V[field], field)
                if kind == "str":
                    return {"field": field[2:], "a": zstr_value(model, x).encode().hex(), "b": zstr_value(model, y).encode().hex()}
                return {"field": field[2:], "a": str(model.eval(x, model_completion=True)), "b": str(model.eval(y, model_completion=True))}
            return build

        for name in sorted(V):
            if name == "c.hash" or name.endswith(".discr") and "MultiSignature.0" in name:
                continue
            var = V[name]
            x2 = fresh(var, name)
            pairs = [(var, x2)]
            short = re.sub(r"[^A-Za-z0-9]+", "_", name[2:])
            live = live_of(name)
            if name.endswith("phi_f"):
                query("c04_field_" + short, "two certificates that differ only in phi_f (at U8F24 precision) have different hashes", pairs, ctx.FIX(var) != ctx.FIX(x2), live, field=name, replay_builder=simple_spec(name, "int"))
            elif name.endswith(("initiated_at", "sealed_at")):
                inr = [var >= -2 ** 63, var < 2 ** 63, x2 >= -2 ** 63, x2 < 2 ** 63]
                query("c04_field_" + short + "_within_i64_nanoseconds", "two certificates that differ only in %s (both within the i64-nanosecond range, years 1677..2262) have different hashes" % name[2:], pairs, var != x2, live + inr,
                      field=name, replay_builder=simple_spec(name, "int"))
                query("c04_field_" + short + "_any", "two certificates that differ only in %s (any representable time) have different hashes" % name[2:], pairs, var != x2, live,
                      role="c04-timestamp-outside-i64-nanoseconds-" + name.split(".")[-1], field=name, replay_builder=simple_spec(name, "int"))
            elif name.endswith(".is_some") or name == "c.signature.discr":
                query("c04_field_" + short, "two certificates that differ only in %s have different hashes" % name[2:], pairs, var != x2, live, field=name, replay_builder=simple_spec(name, "int"))
            else:
                query("c04_field_" + short, "two certificates that differ only in %s have different hashes (all values)" % name[2:], pairs, var != x2, live,
                      field=name, replay_builder=simple_spec(name, "str" if z3.is_string(var) else "int"))
        # signed entity type: every pair of variants, payloads arbitrary on both sides
        pre = [n for n in V if n.endswith("MultiSignature.0.discr")]
        if pre:
            dname = pre[0]
            epre = dname[:-len(".discr")]
            names = ctx.I.load_enum("SignedEntityType")
            names = list(names.keys()) if isinstance(names, dict) else list(names)
            evars = [n for n in V if n.startswith(epre + ".") and n != dname]
            for a_i, b_i in itertools.combinations(range(len(names)), 2):
                va, vb = names[a_i], names[b_i]
                pairs = [(V[dname], z3.IntVal(ctx.I.variant_index("SignedEntityType", vb)))] + [(V[n], fresh(V[n], n)) for n in evars]
                ia, ib = ctx.I.variant_index("SignedEntityType", va), ctx.I.variant_index("SignedEntityType", vb)

                def build(model, ia=ia, ib=ib, pairs=pairs):
                    m2 = {p[0].decl().name(): p[1] for p in pairs}
                    V2 = {n: (m2.get(V[n].decl().name(), V[n]) if z3.is_const(V[n]) else V[n]) for n in V}
                    return {"field": "signature.entity", "a": entity_spec(ctx, model, V, epre, ia), "b": entity_spec(ctx, model, V2, epre, ib)}
                query("c04_entity_type_%s_vs_%s" % (va, vb), "a certificate signed for %s(..) and one signed for %s(..), equal in every other field, have different hashes (all beacon values)" % (va, vb),
                      pairs, z3.BoolVal(True), live_of(dname) + [V[dname] == ia], role="c04-signed-entity-type-%s-vs-%s" % (va, vb), field="signature.entity", replay_builder=build)
        # list of signers: one more party
        ctx_b = ctx
        cert_b, sb_b, outs_b, axioms_b = run_hash(ctx_b, prog, NS + 1)
        phi_b = relation(ctx_b, outs_b, h)
        ob = rep.add(core.Obligation("c04_signers_list_length", "smt", "a certificate with %d signers in its metadata and one with the same %d plus one more have different hashes" % (NS, NS)))
        r = smt.check(base + [phi_b] + axioms_b + list(sb_b.constraints), timeout_s=tmo)
        ob.solver_s = r.seconds
        ob.status = "discharged" if r.status == "unsat" else "failed" if r.status == "sat" else "inconclusive"
        if r.status == "sat":
            ob.role = "c04-signers_list_length"
            spec = {"field": "metadata.signers.len", "a": "0", "b": "1"}
            ob.counterexample = {"field": "metadata.signers", "spec": spec}
            failures.append((ob, spec))
        elif r.status != "unsat":
            rep.inconcl("signers list length: %s" % r.reason)
        rep.functions += sorted(set("%s -> %s" % (a, b) for a, b in ctx.I.calls_seen.items() if b.startswith("mir:")))
    except Unencodable as e:
        rep.inconcl("unencodable: %s" % e)
    # ---- replay ----------------------------------------------------------------------------------------------------
    k = 0
    for ob, spec in failures:
        k += 1
        native = {}
        reproduced = False
        try:
            if spec is not None:
                native["cert_hash"] = native_cert_hash([spec])
                reproduced = bool(native["cert_hash"]) and native["cert_hash"][0] == "equal"
        except Exception as e:
            native["error"] = str(e)
        path = core.write_replay("C04", k, {"property": "C04", "role": ob.role, "obligation": ob.name, "spec": spec, "native_replay": native})
        rep.violation(ob.role, "%s: two certificates differing only in %s hash the same: %s; native %s" % (ob.name, (ob.counterexample or {}).get("field"), spec, native), path, reproduced)
        if reproduced:
            rep.traces_validated += 1
    return rep.finish()


# ---- aligned-atom decomposition of "two hashes are equal" -------------------------------------------------------------------------
# The direct query (string theory + injective uninterpreted encoders) answers `unsat` in milliseconds but does not produce models.
# To obtain counterexamples, equality of two hash terms is rewritten — soundly — into a formula over the integers / keys the atoms
# depend on: A.M1.B = A.M2.B <=> M1 = M2 (identical prefix / suffix atoms cancel), and two sequences of fixed-length atoms with
# the same length profile are equal iff they are equal atom by atom; an injective encoder's results are equal iff its arguments are.
def _flatten(t):
    if z3.is_app(t) and t.decl().kind() == z3.Z3_OP_SEQ_CONCAT:
        out = []
        for c in t.children():
            out += _flatten(c)
        return out
    if z3.is_string_value(t) and t.as_string() == "":
        return []
    return [t]


def _fixed_len(a):
    if z3.is_string_value(a):
        return len(a.as_string())
    if z3.is_app(a) and a.decl().kind() == z3.Z3_OP_UNINTERPRETED:
        n = a.decl().name()
        if n == "be8":
            return 8
        if n == "be4":
            return 4
        if n == "sha256":
            return 32
        if n == "hex_encode":
            inner = _fixed_len(a.arg(0))
            return None if inner is None else 2 * inner
    return None


def atom_eq(a, b):
    if z3.eq(a, b):
        return z3.BoolVal(True)
    if z3.is_string_value(a) and z3.is_string_value(b):
        return z3.BoolVal(a.as_string() == b.as_string())
    ua = z3.is_app(a) and a.decl().kind() == z3.Z3_OP_UNINTERPRETED
    ub = z3.is_app(b) and b.decl().kind() == z3.Z3_OP_UNINTERPRETED
    if ua and ub and a.decl().name() == b.decl().name():
        x, y = a.arg(0), b.arg(0)
        if z3.is_string(x):
            return hash_eq(x, y)
        return x == y
    return a == b  # residual: left to the solver (with the encoders' axioms)


def hash_eq(t1, t2):
    """formula equivalent to t1 = t2 for two byte-string terms built from concatenation and the injective encoders"""
    A, Bs = _flatten(t1), _flatten(t2)
    while A and Bs and z3.eq(A[0], Bs[0]):
        A, Bs = A[1:], Bs[1:]
    while A and Bs and z3.eq(A[-1], Bs[-1]):
        A, Bs = A[:-1], Bs[:-1]
    conds = []
    # pair off aligned fixed-length atoms from both ends
    while A and Bs and _fixed_len(A[0]) is not None and _fixed_len(A[0]) == _fixed_len(Bs[0]):
        conds.append(atom_eq(A[0], Bs[0]))
        A, Bs = A[1:], Bs[1:]
    while A and Bs and _fixed_len(A[-1]) is not None and _fixed_len(A[-1]) == _fixed_len(Bs[-1]):
        conds.append(atom_eq(A[-1], Bs[-1]))
        A, Bs = A[:-1], Bs[:-1]
    if not A and not Bs:
        return z3.And(conds) if conds else z3.BoolVal(True)
    la = [_fixed_len(x) for x in A]
    lb = [_fixed_len(x) for x in Bs]
    if all(x is not None for x in la + lb) and sum(la) != sum(lb):
        return z3.BoolVal(False)
    if len(A) == 1 and len(Bs) == 1:
        conds.append(atom_eq(A[0], Bs[0]))
        return z3.And(conds)
    cat = lambda xs: z3.Concat(*xs) if len(xs) > 1 else (xs[0] if xs else z3.StringVal(""))
    conds.append(cat(A) == cat(Bs))  # residual word equation
    return z3.And(conds)


def counterexample_search(ctx, outs, pairs, extra, axioms, timeout_s):
    """path-pair-wise search for two inputs with equal hashes using the decomposition above; returns a model or None / 'unknown'"""
    oks = [o for o in outs if o.kind == "return" and o.value.discr == 0]
    unknown = False
    for o1 in oks:
        for o2 in oks:
            pc2 = [z3.substitute(c, *pairs) for c in o2.pc]
            pre = list(o1.pc) + pc2 + list(extra)
            s = z3.Solver()
            s.set("timeout", 5000)
            s.add(pre)
            if s.check() == z3.unsat:
                continue
            h1 = o1.value.payloads[0][0].term
            h2 = z3.substitute(o2.value.payloads[0][0].term, *pairs)
            eq = hash_eq(h1, h2)
            ax = list(axioms) + [z3.substitute(a, *pairs) for a in axioms]
            r = smt.check(pre + [eq] + (ax if "Concat" in str(eq) or "==" in str(z3.simplify(eq)) and z3.is_string(h1) and "str." in z3.simplify(eq).sexpr() else []), timeout_s=timeout_s)
            if r.status == "sat":
                return r.model
            if r.status != "unsat":
                unknown = True
    return "unknown" if unknown else None
