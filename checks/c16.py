"""C16 — a stored signature is attributed to the party whose registered key produced it (label <-> key binding in
MultiSigner::verify_single_signature).

Engine B: the MIR of mithril-common's MultiSigner::verify_single_signature is executed symbolically.  The party label,
the signer slot embedded in the protocol signature and the signature itself are symbolic; the registry lookup
(Clerk::get_concatenation_registered_party_for_index) and STM single-signature verification are deterministic oracles.
"""
import os
import re

import z3

from lib import core, mir, smt
from mir2smt import interp as MI
from mir2smt import models as MM
from mir2smt import symval
from mir2smt.interp import Abs, Agg, EnumV, Ref, Opaque, Unencodable

SRC = ["mithril-common/src/protocol/multi_signer.rs", "mithril-common/src/entities/single_signature.rs"]


class Ctx:
    def __init__(self, prog):
        self.prog = prog
        self.I = MI.Interp(prog, models=[self.models, MM.hof_models, MM.abs_models, MM.core_models], unroll=4)
        self.I.enum_tables.update(MM.ENUM_TABLE_EXTRA)
        Int, Bool = z3.IntSort(), z3.BoolSort()
        self.REGISTERED = z3.Function("slot_is_registered", Int, Bool)
        self.VK_OF_SLOT = z3.Function("key_registered_at_slot", Int, Int)
        self.STAKE_OF_SLOT = z3.Function("stake_registered_at_slot", Int, Int)
        self.SLOT_OF_PARTY = z3.Function("slot_of_party", Int, Int)          # the slot the labelled party registered (ghost: not available to the code)
        self.PARTY_REGISTERED = z3.Function("party_is_registered", Int, Bool)
        self.SIG_SLOT = z3.Function("signer_index_embedded_in_signature", Int, Int)
        self.VALID = z3.Function("stm_single_signature_verifies", Int, Int, Int, Int, Bool)  # (signature, vk, stake, message)

    def models(self, I, st, caller, func, args, argtys, dest_ty):
        f = MM.strip_std_paths(func)
        if re.search(r"SingleSignature::to_protocol_signature$", f):
            s = MM.deref_all(I, st, args[0])
            sig = [x for x in s.fields if isinstance(x, Abs) and x.sort == "signature"][0]
            # the STM signature value: (identity, embedded signer_index)
            return MM.ret(st, Agg("adt", "StmSingleSignature", (sig, self.SIG_SLOT(sig.term))))
        if re.search(r"MultiSigner::compute_aggregate_verification_key$", f):
            return MM.ret(st, Abs("avk", z3.Int("avk")))
        if re.search(r"get_concatenation_registered_party_for_index$", f):
            idx = MM.deref_all(I, st, args[1])
            st.trace = st.trace + (("registry_lookup", idx, None),)
            tup = Agg("tuple", None, (Abs("vk", self.VK_OF_SLOT(idx)), self.STAKE_OF_SLOT(idx)))
            return MM.ret(st, EnumV("Result", z3.If(self.REGISTERED(idx), 0, 1), {0: (tup,), 1: (Opaque("anyhow::Error"),)}))
        if re.search(r"as ToMessage>::to_message$", f):
            return MM.ret(st, Abs("message", z3.Int("message")))
        if re.search(r"String::as_bytes$", f):
            return MM.ret(st, MM.deref_all(I, st, args[0]))
        if re.search(r"(mithril_stm::)?SingleSignature::verify::<", f):
            sig = MM.deref_all(I, st, args[0])
            vk = MM.deref_all(I, st, args[2])
            stake = MM.deref_all(I, st, args[3])
            msg = MM.deref_all(I, st, args[5])
            ok = self.VALID(sig.fields[0].term, vk.term, stake, msg.term)
            st.trace = st.trace + (("stm_verify", (sig.fields[0].term, vk.term, stake, msg.term), ok),)
            return MM.ret(st, EnumV("Result", z3.If(ok, 0, 1), {0: (MI.UNIT,), 1: (Opaque("anyhow::Error"),)}))
        if re.match(r"^<.* as (Clone|ToOwned)>::(clone|to_owned)$", f):
            return MM.ret(st, MM.deref_all(I, st, args[0]))
        # state the verifier may carry between calls (caches, memo tables): arbitrary pre-state — a lookup answers anything,
        # an update is dropped; sound for "after any history" because nothing is assumed about what earlier calls stored
        if re.search(r"ProtocolKey::<.*>::(to_bytes_hex|to_json_hex)$", f):
            k = MM.deref_all(I, st, args[0])
            return MM.ret(st, EnumV("Result", 0, {0: (Abs("str", z3.Function("encoding_of", z3.IntSort(), z3.IntSort())(k.term)) if isinstance(k, Abs) else Opaque("encoding"),)}))
        if re.match(r"^(Mutex|RwLock)::<.*>::(lock|read|write)$", f):
            return MM.ret(st, EnumV("Result", 0, {0: (args[0],)}))
        if re.match(r"^<(MutexGuard|RwLockReadGuard|RwLockWriteGuard)<.*> as (Deref|DerefMut)>::(deref|deref_mut)$", f):
            return MM.ret(st, args[0])
        m = re.match(r"^(HashSet|BTreeSet|HashMap|BTreeMap)::<.*>::(contains|contains_key|insert|remove|get)(::<.*>)?$", f)
        if m and isinstance(MM.deref_all(I, st, args[0]), Opaque):
            I.fresh_counter += 1
            if m.group(2) in ("contains", "contains_key") or (m.group(2) in ("insert", "remove") and m.group(1).endswith("Set")):
                b = z3.Bool("carried_state_answer!%d" % I.fresh_counter)
                st.trace = st.trace + (("carried_state", m.group(2), b),)
                return MM.ret(st, b)
            return MM.ret(st, EnumV("Option", 0, {}))
        return None


def native_attribution():
    from checks.c17 import native_query
    return [l for l in native_query(["attribution"]) if l.startswith(("own-label", "scenario"))]


def native_slot_binding():
    from checks.c17 import native_query
    return [l for l in native_query(["slot_binding"]) if l.startswith(("slot_binding", "scenario"))]


def run(tier, seed):
    rep = core.Report("C16", tier, seed)
    rep.trusted_base = ["rustc nightly MIR", "mir2smt interpreter + oracle call models", "z3"]
    rep.functions = ["source hashes: %s" % core.source_hashes(SRC)]
    rep.assumptions = [
        "Clerk::get_concatenation_registered_party_for_index(slot) = deterministic partial function slot -> (key, stake) (the closed registration)",
        "mithril_stm::SingleSignature::verify = deterministic oracle of (signature, key, stake, message) (its content is C01/C08)",
        "which slot a party registered is a ghost function of the party label: the code has no access to it, which is the point of the obligation",
    ]
    rep.outside = ["storage key (open message, party id, epoch), replace-on-insert, buffered and message-queue paths, certificate metadata assembly: SQLite and async services",
                   "SingleSignatureAuthenticator (aggregator) which re-labels / authenticates before storage"]
    rep.solver_vars = ["party label", "signature identity and the signer slot embedded in it", "registry content", "oracle verdicts", "message"]
    try:
        path, dt = mir.dump("mithril-common")
    except Exception as e:
        rep.inconcl("MIR dump failed: %s" % e)
        return rep.finish()
    prog = MI.Program(open(path).read(), source_root=os.path.join(core.REPO, "mithril-common"))
    tmo = 60
    failures = []
    try:
        ctx = Ctx(prog)
        I = ctx.I
        f = prog.find_one(r"multi_signer\.rs.*>::verify_single_signature$")
        db = symval.TypeDB([os.path.join(core.REPO, "mithril-common", "src")])
        party = Abs("party", z3.Int("party_label"))
        sig = Abs("signature", z3.Int("signature"))
        vals = {"party_id": party, "signature": sig, "won_indexes": Opaque("won_indexes"), "authentication_status": EnumV("SingleSignatureAuthenticationStatus", z3.Int("auth"), {})}
        ss = Agg("adt", "SingleSignature", tuple(vals[n] for n, t in db.struct_fields("SingleSignature")))
        st = MI.State()
        fr = I.frame_counter + 1
        I.frame_counter += 3
        ms_fields = db.struct_fields("MultiSigner") or [("protocol_clerk", "ProtocolClerk"), ("protocol_parameters", "Parameters")]
        st.mem[(fr, 0)] = Agg("adt", "MultiSigner", tuple(Opaque(t) for n, t in ms_fields))
        st.mem[(fr + 1, 0)] = Opaque("message")
        st.mem[(fr + 2, 0)] = ss
        outs = I.call_fn(f, [Ref(fr, 0, ()), Ref(fr + 1, 0, ()), Ref(fr + 2, 0, ())], st)
        acc = []
        for o in outs:
            if o.kind != "return":
                rep.inconcl("verify_single_signature: %s %s" % (o.kind, o.msg))
                continue
            d = o.value.discr
            if isinstance(d, int):
                if d == 0:
                    acc.append(list(o.pc))
            else:
                acc.append(list(o.pc) + [d == 0])
        accept = z3.Or([z3.And(pc) for pc in acc]) if acc else z3.BoolVal(False)
        slot = ctx.SIG_SLOT(sig.term)
        msg = z3.Int("message")
        clauses = [
            ("verified_against_registered_key_of_embedded_slot", "the signature verifies under the key and stake registered at the slot embedded in the signature, for this message",
             z3.And(ctx.REGISTERED(slot), ctx.VALID(sig.term, ctx.VK_OF_SLOT(slot), ctx.STAKE_OF_SLOT(slot), msg))),
            ("label_is_owner_of_verifying_key", "the key the signature was verified against is the key registered by the labelled party (label bound to the slot)",
             z3.And(ctx.PARTY_REGISTERED(party.term), ctx.SLOT_OF_PARTY(party.term) == slot)),
        ]
        for name, desc, clause in clauses:
            ob = rep.add(core.Obligation("c16_" + name, "smt", "accept => " + desc, {"vccs": len(acc)}))
            r = smt.check([accept, z3.Not(clause)], timeout_s=tmo, cross=True)
            ob.solver_s = r.seconds
            if r.status == "unsat":
                ob.status = "discharged"
            elif r.status == "sat":
                ob.status = "failed"
                md = smt.model_to_dict(r.model)
                ob.counterexample = {"party_label": md.get("party_label"), "signature": md.get("signature"),
                                     "embedded_slot": r.model.eval(slot, model_completion=True).as_long(),
                                     "slot_of_labelled_party": r.model.eval(ctx.SLOT_OF_PARTY(party.term), model_completion=True).as_long(),
                                     "labelled_party_registered": str(r.model.eval(ctx.PARTY_REGISTERED(party.term), model_completion=True))}
                failures.append((name, ob))
            else:
                ob.status = "inconclusive"
                rep.inconcl("%s: %s" % (name, r.reason))
        ob = rep.add(core.Obligation("c16_witness_accept", "smt", "witness: some signature is accepted"))
        r = smt.check([accept], timeout_s=tmo)
        ob.status = "discharged" if r.status == "sat" else "inconclusive"
        if r.status != "sat":
            rep.inconcl("no accepting path")
        rep.functions += sorted("%s -> %s" % (a, b) for a, b in I.calls_seen.items())
    except Unencodable as e:
        rep.inconcl("unencodable: %s" % e)
    k = 0
    for name, ob in failures:
        k += 1
        role = "c16-" + name
        if name == "label_is_owner_of_verifying_key":
            role = "c16-label-not-bound-to-embedded-slot"
        ob.role = role
        native = {}
        reproduced = False
        try:
            if role == "c16-label-not-bound-to-embedded-slot":
                lines = native_attribution()
                native["attribution"] = lines
                reproduced = any("other-label=accepted" in l for l in lines)
            else:
                lines = native_slot_binding()
                native["slot_binding"] = lines
                reproduced = any("VIOLATED" in l for l in lines)
        except Exception as e:
            native["error"] = str(e)
        path = core.write_replay("C16", k, {"property": "C16", "role": role, "obligation": ob.name, "counterexample": ob.counterexample, "native_replay": native})
        rep.violation(role, "%s: %s; native %s" % (name, ob.counterexample, native), path, reproduced)
        if reproduced:
            rep.traces_validated += 1
    return rep.finish()
