"""C06 — all parties derive the same aggregate key from the same registrations.

Engine B: the MIR of KeyRegistration::{register_by_entry, close_registration}, ClosedKeyRegistration::{to_merkle_tree,
get_signer_index_for_registration, get_registration_entry_for_index}, the Ord/Eq impls of the registration entry types and
MerkleTree::{new, to_merkle_tree_batch_commitment} is executed symbolically.  BTreeSet is modelled as a sequence kept sorted
by the element type's *own* Ord::cmp body; the digest is an injective uninterpreted function.  The same n symbolic
(key, stake) entries are registered in every insertion order; two different symbolic sets are compared for injectivity.
"""
import itertools
import os
import re

import z3

from lib import core, mir, smt
from mir2smt import interp as MI
from mir2smt import models as MM
from mir2smt import container_models as CM
from mir2smt import num_models as NM
from mir2smt.interp import Abs, Agg, EnumV, Ref, Opaque, Outcome, Unencodable
from checks import c09

SRC = ["mithril-stm/src/protocol/key_registration/register.rs", "mithril-stm/src/protocol/key_registration/registration_entry.rs",
       "mithril-stm/src/protocol/key_registration/closed_registration_entry.rs", "mithril-stm/src/membership_commitment/merkle_tree/leaf.rs",
       "mithril-stm/src/membership_commitment/merkle_tree/tree.rs"]


class Ctx(c09.Ctx):
    def __init__(self, prog):
        super().__init__(prog, unroll=16)
        self.I.models = [self.models6, CM.btreeset_models] + self.I.models
        self.LEAF = z3.Function("leaf_bytes_of_key_and_stake", z3.IntSort(), z3.IntSort(), z3.IntSort())
        self.LEAFK = z3.Function("leaf_bytes_key", z3.IntSort(), z3.IntSort())
        self.LEAFS = z3.Function("leaf_bytes_stake", z3.IntSort(), z3.IntSort())

    def models6(self, I, st, caller, func, args, argtys, dest_ty):
        f = MM.strip_std_paths(func)
        m = re.match(r"^<(.*BlsVerificationKey|.*VerificationKeyForConcatenation) as (Ord|PartialOrd|PartialEq)>::(\w+)$", f)
        if m:
            a, b = MM.deref_all(I, st, args[0]), MM.deref_all(I, st, args[1])
            op = m.group(3)
            if op == "cmp":
                return MM.ret(st, MM.ordering(a.term, b.term))
            if op == "partial_cmp":
                return MM.ret(st, MM.mk_option(True, MM.ordering(a.term, b.term)))
            return MM.ret(st, {"eq": a.term == b.term, "ne": a.term != b.term, "lt": a.term < b.term, "le": a.term <= b.term, "gt": a.term > b.term, "ge": a.term >= b.term}[op])
        if re.search(r"MerkleTreeLeaf>::as_bytes_for_merkle_tree$", f):
            lf = MM.deref_all(I, st, args[0])
            if isinstance(lf, Agg) and len(lf.fields) == 2:
                k_, s_ = lf.fields
                kt = k_.term if isinstance(k_, Abs) else k_
                t = self.LEAF(kt, s_)
                st.assume(z3.And(self.LEAFK(t) == kt, self.LEAFS(t) == s_, t != c09.PAD_INPUT))
                return MM.ret(st, Abs("bytes", t))
        if re.match(r"^(std::boxed::)?Box::<.*>::new$", f):
            return MM.ret(st, Agg("box", None, (args[0],)))
        if re.search(r"compute_target_value|LotteryTargetValue", f):
            return MM.ret(st, Opaque("snark only"))
        return None


def entry(i, tag=""):
    return Agg("adt", "RegistrationEntry", (Abs("vk", z3.Int("key%s_%d" % (tag, i))), z3.Int("stake%s_%d" % (tag, i))))


def pipeline(ctx, prog, entries, order, cons, keep_rejected=False):
    """register `entries` in the given order, close, build the tree: list of (state, dict) over all paths"""
    I = ctx.I
    f_reg = prog.find_one(r"key_registration/register\.rs.*>::register_by_entry$")
    f_close = prog.find_one(r"key_registration/register\.rs.*>::close_registration$")
    f_tree = prog.find_one(r"key_registration/register\.rs.*>::to_merkle_tree$")
    f_commit = prog.find_one(r"merkle_tree/tree\.rs.*>::to_merkle_tree_batch_commitment$")
    f_index = prog.find_one(r"key_registration/register\.rs.*>::get_signer_index_for_registration$")
    from mir2smt import symval
    db = symval.TypeDB([os.path.join(core.REPO, "mithril-stm", "src")])
    st = MI.State()
    for c in cons:
        st.assume(c)
    I.frame_counter += 1
    kf = I.frame_counter
    try:
        f_init = prog.find_one(r"key_registration/register\.rs.*>::initialize$")
        o0 = [o for o in I.call_fn(f_init, [], st) if o.kind == "return"]
        if len(o0) != 1:
            raise Unencodable("KeyRegistration::initialize: %d paths" % len(o0))
        st = o0[0].state
        st.mem[(kf, 0)] = o0[0].value
    except Unencodable:
        kr_fields = {"registration_entries": Agg("btreeset", None, ()), "registered_keys_for_concatenation": Agg("hashset", None, ())}
        st.mem[(kf, 0)] = Agg("adt", "KeyRegistration", tuple(kr_fields.get(n, z3.IntVal(0) if t.strip() in ("Stake", "u64", "usize", "u128") else Opaque(t)) for n, t in db.struct_fields("KeyRegistration")))
    states = [st]
    for i in order:
        nxt = []
        for s in states:
            I.frame_counter += 1
            ef = I.frame_counter
            s.mem[(ef, 0)] = entries[i]
            for o in I.call_fn(f_reg, [Ref(kf, 0, (), True), Ref(ef, 0, ())], s):
                if o.kind != "return":
                    raise Unencodable("register_by_entry: %s %s" % (o.kind, o.msg))
                if o.value.discr == 0 or keep_rejected:
                    nxt.append(o.state)
        states = nxt
    results = []
    I.frame_counter += 1
    pf = I.frame_counter
    params = Agg("adt", "Parameters", (z3.Int("m"), z3.Int("k"), z3.FP("phi_f", z3.Float64())))
    for s in states:
        s.mem[(pf, 0)] = params
        for o in I.call_fn(f_close, [s.mem[(kf, 0)], Ref(pf, 0, ())], s):
            if o.kind != "return":
                raise Unencodable("close_registration: %s %s" % (o.kind, o.msg))
            if o.value.discr != 0:
                continue
            closed = o.value.payloads[0][0]
            s2 = o.state
            I.frame_counter += 1
            cf = I.frame_counter
            s2.mem[(cf, 0)] = closed
            for o2 in I.call_fn(f_tree, [Ref(cf, 0, ())], s2):
                if o2.kind != "return":
                    raise Unencodable("to_merkle_tree: %s %s" % (o2.kind, o2.msg))
                s3 = o2.state
                I.frame_counter += 1
                tf = I.frame_counter
                s3.mem[(tf, 0)] = o2.value
                for o3 in I.call_fn(f_commit, [Ref(tf, 0, ())], s3):
                    com = o3.value
                    total = [x for n_, x in zip([n for n, t in db.struct_fields("ClosedKeyRegistration")], closed.fields) if n_ == "total_stake"][0]
                    entries_sorted = [x for n_, x in zip([n for n, t in db.struct_fields("ClosedKeyRegistration")], closed.fields) if n_ == "closed_registration_entries"][0]
                    root = [x for x in com.fields if isinstance(x, Abs)][0].term
                    nleaves = [x for x in com.fields if z3.is_expr(x)][0]
                    results.append((o3.state, {"root": root, "nr_leaves": nleaves, "total_stake": total, "sorted": entries_sorted, "closed_ref": Ref(cf, 0, ())}))
    return results, f_index


def key_order(rep, prog, tmo, failures):
    """the byte-wise key comparison that orders the registration: Equal exactly for identical encodings, and antisymmetric
    (the BTreeSet model above relies on the key order being a total order consistent with key equality)"""
    ctx = c09.Ctx(prog, unroll=100)
    I = ctx.I
    BYTE = z3.Function("key_byte", z3.IntSort(), z3.IntSort(), z3.IntSort())

    def models(I, st, caller, func, args, argtys, dest_ty):
        f = MM.strip_std_paths(func)
        if re.search(r"BlsVerificationKey::to_bytes$", f):
            k_ = MM.deref_all(I, st, args[0])
            kt = [x for x in ([k_] if isinstance(k_, Abs) else k_.fields) if isinstance(x, Abs)][0].term
            return MM.ret(st, Agg("array", None, tuple(BYTE(kt, z3.IntVal(i)) for i in range(96))))
        return None
    I.models = [models] + I.models
    f_cmp = prog.find_one(r"verification_key\.rs.*>::compare_verification_keys$")
    ka, kb = z3.Int("key_a"), z3.Int("key_b")
    runs = {}
    for tag, (x, y) in (("ab", (ka, kb)), ("ba", (kb, ka))):
        st = MI.State()
        for k_ in (ka, kb):
            for i in range(96):
                st.assume(z3.And(BYTE(k_, z3.IntVal(i)) >= 0, BYTE(k_, z3.IntVal(i)) <= 255))
        fr = I.frame_counter + 1
        I.frame_counter += 2
        st.mem[(fr, 0)] = Agg("adt", "BlsVerificationKey", (Abs("vk", x),))
        st.mem[(fr + 1, 0)] = Agg("adt", "BlsVerificationKey", (Abs("vk", y),))
        outs = I.call_fn(f_cmp, [Ref(fr, 0, ()), Ref(fr + 1, 0, ())], st)
        for o in outs:
            if o.kind != "return":
                raise Unencodable("compare_verification_keys: %s %s" % (o.kind, o.msg))
        runs[tag] = outs
    same = z3.And([BYTE(ka, z3.IntVal(i)) == BYTE(kb, z3.IntVal(i)) for i in range(96)])

    def disc(o):
        d = o.value.discr
        return d if z3.is_expr(d) else z3.IntVal(d)
    eqv = z3.IntVal(I.variant_index("Ordering", "Equal"))
    ob = rep.add(core.Obligation("c06_key_order_equal_iff_same_encoding", "smt", "compare_verification_keys(a, b) is Equal exactly when the 96-byte encodings of a and b are identical (all byte contents)",
                                 {"vccs": len(runs["ab"]), "paths": len(runs["ab"])}))
    bad = z3.Or([z3.And(list(o.pc) + [(disc(o) == eqv) != same]) for o in runs["ab"]])
    r = smt.check([bad], timeout_s=tmo)
    ob.solver_s = r.seconds
    ob.status = "discharged" if r.status == "unsat" else "failed" if r.status == "sat" else "inconclusive"
    if r.status == "sat":
        diffs = [i for i in range(96) if r.model.eval(BYTE(ka, z3.IntVal(i)), model_completion=True).as_long() != r.model.eval(BYTE(kb, z3.IntVal(i)), model_completion=True).as_long()]
        ob.counterexample = {"bytes_that_differ": diffs[:8], "a": [r.model.eval(BYTE(ka, z3.IntVal(i)), model_completion=True).as_long() for i in diffs[:8]],
                             "b": [r.model.eval(BYTE(kb, z3.IntVal(i)), model_completion=True).as_long() for i in diffs[:8]]}
        failures.append(("key_order", 2, (), ob))
    elif r.status != "unsat":
        rep.inconcl("%s: %s" % (ob.name, r.reason))
    ob = rep.add(core.Obligation("c06_key_order_antisymmetric", "smt", "compare_verification_keys(a, b) is the reverse of compare_verification_keys(b, a)"))
    rev = lambda d: -d  # Ordering discriminants are -1, 0, 1
    bad = z3.Or([z3.And(list(o1.pc) + list(o2.pc) + [disc(o1) != rev(disc(o2))]) for o1 in runs["ab"] for o2 in runs["ba"]])
    r = smt.check([bad], timeout_s=tmo)
    ob.solver_s = r.seconds
    ob.status = "discharged" if r.status == "unsat" else "failed" if r.status == "sat" else "inconclusive"
    if r.status == "sat":
        failures.append(("key_order", 2, (), ob))
    elif r.status != "unsat":
        rep.inconcl("%s: %s" % (ob.name, r.reason))


def leaf_encoding(rep, prog, tmo, failures):
    """the real byte encoding of a concatenation leaf (MerkleTreeConcatenationLeaf::to_bytes): equal encodings => equal key bytes
    and equal stake, over all stakes in u64 (the tree runs above use an abstract injective leaf encoding: this is what justifies it)"""
    ctx = c09.Ctx(prog, unroll=110)
    I = ctx.I
    BYTE = z3.Function("key_byte", z3.IntSort(), z3.IntSort(), z3.IntSort())

    def models(I, st, caller, func, args, argtys, dest_ty):
        f = MM.strip_std_paths(func)
        if re.search(r"BlsVerificationKey::to_bytes$", f):
            k_ = MM.deref_all(I, st, args[0])
            kt = [x for x in ([k_] if isinstance(k_, Abs) else k_.fields) if isinstance(x, Abs)][0].term
            return MM.ret(st, Agg("array", None, tuple(BYTE(kt, z3.IntVal(i)) for i in range(96))))
        m = re.match(r"^<\[u8; (\d+)\] as IndexMut<(RangeTo|RangeFrom|Range)<usize>>>::index_mut$", f)
        if m:
            n = int(m.group(1))
            rg = args[1]
            vals = [z3.simplify(x).as_long() for x in rg.fields if z3.is_expr(x)]
            lo, hi = (0, vals[0]) if m.group(2) == "RangeTo" else (vals[0], n) if m.group(2) == "RangeFrom" else (vals[0], vals[1])
            if not (0 <= lo <= hi <= n):
                return MM.panic(st, "range out of bounds for a [u8; %d]" % n)
            return MM.ret(st, Agg("arrslice", None, (args[0], lo, hi)))
        if re.match(r"^core::slice::<impl \[u8\]>::copy_from_slice$", f.replace("std::slice", "core::slice")) and isinstance(args[0], Agg) and args[0].kind == "arrslice":
            ref, lo, hi = args[0].fields
            src = MM.deref_all(I, st, args[1])
            if not (isinstance(src, Agg) and src.kind in ("array", "vec")):
                raise Unencodable("copy_from_slice from %r" % (src,))
            if len(src.fields) != hi - lo:
                return MM.panic(st, "copy_from_slice: source slice length (%d) does not match destination slice length (%d)" % (len(src.fields), hi - lo))
            arr = I.load(st, ref)
            fl = list(arr.fields)
            fl[lo:hi] = list(src.fields)
            I.store(st, ref, Agg(arr.kind, arr.name, tuple(fl)))
            return MM.ret(st, MI.UNIT)
        m = re.match(r"^core::num::<impl (u64|u32|u16|usize)>::to_be_bytes$", f)
        if m:
            nb = {"u64": 8, "usize": 8, "u32": 4, "u16": 2}[m.group(1)]
            x = args[0]
            # bytes as functions of the value with the positional identity (linear; no div/mod for the solver)
            BEB = z3.Function("be_byte_%d" % nb, z3.IntSort(), z3.IntSort(), z3.IntSort())
            bs = [BEB(x, z3.IntVal(i)) for i in range(nb)]
            st.assume(z3.And([z3.And(b >= 0, b <= 255) for b in bs] + [x == z3.Sum([b * (256 ** (nb - 1 - i)) for i, b in enumerate(bs)])]))
            return MM.ret(st, Agg("array", None, tuple(bs)))
        return None
    I.models = [models] + I.models
    cands = [c for c in prog.find(r"merkle_tree/leaf\.rs.*>::to_bytes$") if "MerkleTreeConcatenationLeaf" in c.header]
    if len(cands) != 1:
        raise Unencodable("MerkleTreeConcatenationLeaf::to_bytes: %d candidates" % len(cands))
    enc = []
    for tag in ("a", "b"):
        k_, s_ = z3.Int("leaf_key_" + tag), z3.Int("leaf_stake_" + tag)
        st = MI.State()
        st.assume(z3.And(s_ >= 0, s_ < 2 ** 64))
        for i in range(96):
            st.assume(z3.And(BYTE(k_, z3.IntVal(i)) >= 0, BYTE(k_, z3.IntVal(i)) <= 255))
        leaf = Agg("adt", "MerkleTreeConcatenationLeaf", (Agg("adt", "BlsVerificationKey", (Abs("vk", k_),)), s_))
        outs = I.call_fn(cands[0], [leaf], st)
        if len(outs) != 1 or outs[0].kind != "return":
            raise Unencodable("leaf to_bytes: %s" % [(o.kind, o.msg[:60]) for o in outs][:2])
        v = MM.deref_all(I, outs[0].state, outs[0].value)
        enc.append((k_, s_, list(v.fields), list(outs[0].pc)))
    (ka, sa, ba, pa), (kb, sb_, bb, pb) = enc
    ob = rep.add(core.Obligation("c06_leaf_encoding_injective", "smt", "MerkleTreeConcatenationLeaf::to_bytes: equal %d-byte encodings => equal key encoding and equal stake (all stakes in u64)" % len(ba), {"bytes": len(ba)}))
    if len(ba) != len(bb):
        ob.status = "failed"
        return
    same_key = z3.And([BYTE(ka, z3.IntVal(i)) == BYTE(kb, z3.IntVal(i)) for i in range(96)])
    r = smt.check(pa + pb + [z3.And([x == y for x, y in zip(ba, bb)]), z3.Not(z3.And(same_key, sa == sb_))], timeout_s=tmo)
    ob.solver_s = r.seconds
    ob.status = "discharged" if r.status == "unsat" else "failed" if r.status == "sat" else "inconclusive"
    if r.status == "sat":
        ob.counterexample = {"stake_a": r.model.eval(sa, model_completion=True).as_long(), "stake_b": r.model.eval(sb_, model_completion=True).as_long(),
                             "same_key": str(r.model.eval(same_key, model_completion=True))}
        failures.append(("leaf_encoding", 2, (), ob))
    elif r.status != "unsat":
        rep.inconcl("%s: %s" % (ob.name, r.reason))


def slot_of(ctx, st, sorted_entries, key_term):
    """position of the entry with the given key in the sorted sequence, as a z3 term"""
    r = z3.IntVal(-1)
    for i, e in reversed(list(enumerate(sorted_entries.fields))):
        kt = [x for x in e.fields if isinstance(x, Abs)][0].term
        r = z3.If(kt == key_term, i, r)
    return r


def run(tier, seed):
    rep = core.Report("C06", tier, seed)
    rep.trusted_base = ["rustc nightly MIR", "mir2smt interpreter + BTreeSet / HashSet / iterator / digest call models", "z3"]
    rep.functions = ["source hashes: %s" % core.source_hashes(SRC)]
    NMAX = 3 if tier == "quick" else 4
    rep.bounds = {"registered_parties": "2..%d" % NMAX, "insertion_orders": "all permutations", "loop_unroll": 16}
    rep.assumptions = [
        "BLS verification keys are totally ordered by their byte encoding: the order is an arbitrary total order on key identities (the byte-wise comparison loop itself is not encoded)",
        "BTreeSet keeps its elements sorted by the element type's Ord::cmp and drops elements comparing Equal (std contract); that Ord::cmp body is the one from the dump",
        "the digest is an injective uninterpreted function; the leaf encoding of (key, stake) is injective (96-byte key || 8-byte big-endian stake)",
        "registered keys are pairwise distinct (a duplicate key is rejected by register_by_entry: checked separately) and stakes are u64 with a total that does not overflow / is non-zero on the compared paths",
        "default cargo features (no SNARK keys)",
    ]
    rep.outside = ["the three service paths (signer, aggregator epoch service, client message.rs) are async; by reading they funnel into SignerBuilder -> KeyRegWrapper -> KeyRegistration, the code checked here",
                   "JSON / hex round trips of keys and signer lists (serde)", "more than %d parties" % NMAX]
    rep.solver_vars = ["every registered key identity and its place in the key order", "every stake (u64), including equal stakes"]
    try:
        path, dt = mir.dump("mithril-stm")
    except Exception as e:
        rep.inconcl("MIR dump failed: %s" % e)
        return rep.finish()
    prog = MI.Program(open(path).read(), source_root=os.path.join(core.REPO, "mithril-stm"))
    tmo = 120 if tier == "quick" else 600
    failures = []
    try:
        for n in range(2, NMAX + 1):
            ents = [entry(i) for i in range(n)]
            keys = [e.fields[0].term for e in ents]
            stakes = [e.fields[1] for e in ents]
            cons = [z3.Distinct(keys)] + [z3.And(s >= 0, s < 2 ** 64) for s in stakes]
            orders = list(itertools.permutations(range(n)))
            base = None
            for oi, order in enumerate(orders):
                ctx = Ctx(prog)
                res, f_index = pipeline(ctx, prog, ents, order, cons)
                if not res:
                    rep.inconcl("n=%d order %s: no successful path" % (n, order))
                    continue
                if base is None:
                    base = (order, res, ctx)
                    ob = rep.add(core.Obligation("c06_witness_n%d" % n, "smt", "witness: %d parties register and close successfully" % n))
                    r = smt.check([z3.Or([z3.And(list(s.pc)) for s, d in res])], timeout_s=tmo)
                    ob.status = "discharged" if r.status == "sat" else "inconclusive"
                    continue
                # compare with the base order: same root, leaf count, total stake, and same slot for every key
                ob = rep.add(core.Obligation("c06_order_independent_n%d_%s" % (n, "".join(map(str, order))), "smt",
                                             "n=%d: registering in order %s vs %s gives the same Merkle root, leaf count, total stake and the same signer slot for every key" % (n, order, base[0]),
                                             {"vccs": len(res) * len(base[1])}))
                status = "discharged"
                for s1, d1 in base[1]:
                    for s2, d2 in res:
                        differ = z3.Or(d1["root"] != d2["root"], d1["nr_leaves"] != d2["nr_leaves"], d1["total_stake"] != d2["total_stake"],
                                       z3.Or([slot_of(ctx, s1, d1["sorted"], k_) != slot_of(ctx, s2, d2["sorted"], k_) for k_ in keys]))
                        r = smt.check(list(s1.pc) + list(s2.pc) + [differ], timeout_s=tmo)
                        ob.solver_s += r.seconds
                        if r.status == "sat":
                            status = "failed"
                            md = smt.model_to_dict(r.model)
                            ob.counterexample = {a: b for a, b in md.items() if a.startswith(("key_", "stake_"))}
                            failures.append(("order_dependence", n, order, ob))
                            break
                        if r.status != "unsat":
                            status = "inconclusive"
                            rep.inconcl("%s: %s" % (ob.name, r.reason))
                    if status == "failed":
                        break
                ob.status = status
            # total stake = mathematical sum of the registered stakes (so an overflowing total never closes)
            if base:
                ob = rep.add(core.Obligation("c06_total_stake_is_sum_n%d" % n, "smt", "n=%d: a closed registration's total stake is the exact sum of the registered stakes (no wrap, no saturation)" % n))
                status = "discharged"
                for s1, d1 in base[1]:
                    r = smt.check(list(s1.pc) + [d1["total_stake"] != z3.Sum(stakes)], timeout_s=tmo)
                    ob.solver_s += r.seconds
                    if r.status == "sat":
                        status = "failed"
                        ob.counterexample = {a: b for a, b in smt.model_to_dict(r.model).items() if a.startswith(("key_", "stake_"))}
                        ob.counterexample["total_stake"] = str(r.model.eval(d1["total_stake"], model_completion=True))
                        failures.append(("total_stake", n, (), ob))
                        break
                    if r.status != "unsat":
                        status = "inconclusive"
                        rep.inconcl("%s: %s" % (ob.name, r.reason))
                ob.status = status
            # histories in which a registration is retried (and rejected as a duplicate): same outcome as without the retry
            if base:
                ident = tuple(range(n))
                for hist in [(0,) + ident, ident + (0,), ident + (n - 1,)]:
                    ctxh = Ctx(prog)
                    res, _ = pipeline(ctxh, prog, ents, hist, cons, keep_rejected=True)
                    ob = rep.add(core.Obligation("c06_retry_history_n%d_%s" % (n, "".join(map(str, hist))), "smt",
                                                 "n=%d: the arrival history %s (one registration retried and rejected) closes to the same root, leaf count and total stake as %s" % (n, hist, base[0]),
                                                 {"vccs": len(res) * len(base[1])}))
                    status = "discharged" if res else "inconclusive"
                    if not res:
                        rep.inconcl("%s: no successful path" % ob.name)
                    for s1, d1 in base[1]:
                        for s2, d2 in res:
                            differ = z3.Or(d1["root"] != d2["root"], d1["nr_leaves"] != d2["nr_leaves"], d1["total_stake"] != d2["total_stake"])
                            r = smt.check(list(s1.pc) + list(s2.pc) + [differ], timeout_s=tmo)
                            ob.solver_s += r.seconds
                            if r.status == "sat":
                                status = "failed"
                                ob.counterexample = {a: b for a, b in smt.model_to_dict(r.model).items() if a.startswith(("key_", "stake_"))}
                                ob.counterexample["history"] = list(hist)
                                failures.append(("history_dependence", n, hist, ob))
                                break
                            if r.status != "unsat":
                                status = "inconclusive"
                                rep.inconcl("%s: %s" % (ob.name, r.reason))
                        if status == "failed":
                            break
                    ob.status = status
            # the closed registration holds exactly the registered (key, stake) pairs, and entry-for-index agrees with the leaf position
            if base:
                order, res, ctxb = base
                ob = rep.add(core.Obligation("c06_closed_entries_are_the_registered_pairs_n%d" % n, "smt", "n=%d: every entry of the closed registration is one of the registered (key, stake) pairs, unchanged, and there are n of them" % n))
                status = "discharged"
                for s1, d1 in res:
                    sf = d1["sorted"].fields
                    cl = [z3.BoolVal(len(sf) == n)]
                    for e in sf:
                        ek = [x for x in e.fields if isinstance(x, Abs)][0].term
                        es = [x for x in e.fields if z3.is_expr(x)][0]
                        cl.append(z3.Or([z3.And(ek == keys[i], es == stakes[i]) for i in range(n)]))
                    r = smt.check(list(s1.pc) + [z3.Not(z3.And(cl))], timeout_s=tmo)
                    ob.solver_s += r.seconds
                    if r.status == "sat":
                        status = "failed"
                        ob.counterexample = {a: b for a, b in smt.model_to_dict(r.model).items() if a.startswith(("key_", "stake_"))}
                        failures.append(("closed_entries", n, (), ob))
                        break
                    if r.status != "unsat":
                        status = "inconclusive"
                        rep.inconcl("%s: %s" % (ob.name, r.reason))
                ob.status = status
                f_entry = prog.find_one(r"key_registration/register\.rs.*>::get_registration_entry_for_index$")
                ob = rep.add(core.Obligation("c06_entry_for_index_is_leaf_position_n%d" % n, "smt", "n=%d: get_registration_entry_for_index(j) returns the entry at sorted position j (= Merkle leaf j), for every j < n and all stakes (0 included)" % n))
                status = "discharged"
                for s1, d1 in res:
                    sf = d1["sorted"].fields
                    for j in range(len(sf)):
                        ctxb.I.frame_counter += 1
                        jf = ctxb.I.frame_counter
                        s1b = s1.fork()
                        s1b.mem[(jf, 0)] = z3.IntVal(j)
                        for o in ctxb.I.call_fn(f_entry, [d1["closed_ref"], Ref(jf, 0, ())], s1b):
                            if o.kind != "return":
                                raise Unencodable("get_registration_entry_for_index: %s %s" % (o.kind, o.msg))
                            v = o.value
                            dv = v.discr if z3.is_expr(v.discr) else z3.IntVal(v.discr)
                            good = z3.BoolVal(False)
                            if 0 in v.payloads and v.payloads[0]:
                                e = MM.deref_all(ctxb.I, o.state, v.payloads[0][0])
                                ek = [x for x in e.fields if isinstance(x, Abs)][0].term
                                es = [x for x in e.fields if z3.is_expr(x)][0]
                                wk = [x for x in sf[j].fields if isinstance(x, Abs)][0].term
                                ws = [x for x in sf[j].fields if z3.is_expr(x)][0]
                                good = z3.And(dv == 0, ek == wk, es == ws)
                            r = smt.check(list(o.pc) + [z3.Not(good)], timeout_s=tmo)
                            ob.solver_s += r.seconds
                            if r.status == "sat":
                                status = "failed"
                                ob.counterexample = {a: b for a, b in smt.model_to_dict(r.model).items() if a.startswith(("key_", "stake_"))}
                                ob.counterexample["index"] = j
                            elif r.status != "unsat":
                                status = "inconclusive" if status == "discharged" else status
                if status == "failed":
                    failures.append(("entry_for_index", n, (), ob))
                ob.status = status
            # slots reported by the real get_signer_index_for_registration agree with the sorted position (base order)
            if base:
                order, res, ctx = base
                okslots = True
                for s1, d1 in res:
                    for j, e in enumerate(d1["sorted"].fields):
                        ctx.I.frame_counter += 1
                        ef = ctx.I.frame_counter
                        s1b = s1.fork()
                        s1b.mem[(ef, 0)] = e
                        for o in ctx.I.call_fn(f_index, [d1["closed_ref"], Ref(ef, 0, ())], s1b):
                            if o.kind != "return":
                                okslots = False
                                continue
                            v = o.value
                            good = isinstance(v, EnumV) and v.discr == 1 and z3.is_true(z3.simplify(v.payloads[1][0] == j))
                            feas = smt.check(list(o.pc), timeout_s=tmo).status != "unsat"
                            if feas and not good:
                                okslots = False
                ob = rep.add(core.Obligation("c06_slot_is_sorted_position_n%d" % n, "smt", "n=%d: get_signer_index_for_registration returns the position of the entry in the sorted registration (= its Merkle leaf index)" % n))
                ob.status = "discharged" if okslots else "failed"
                if not okslots:
                    failures.append(("slot_position", n, (), ob))
            # injectivity: two different sets of n parties give different (root, total stake)
            entsb = [entry(i, "b") for i in range(n)]
            keysb = [e.fields[0].term for e in entsb]
            consb = [z3.Distinct(keysb)] + [z3.And(e.fields[1] >= 0, e.fields[1] < 2 ** 64) for e in entsb]
            ctxa = Ctx(prog)
            ra, _ = pipeline(ctxa, prog, ents, tuple(range(n)), cons)
            rb, _ = pipeline(ctxa, prog, entsb, tuple(range(n)), consb)
            ob = rep.add(core.Obligation("c06_distinct_sets_distinct_keys_n%d" % n, "smt", "n=%d: two registration sets with the same Merkle root and leaf count are the same set of (key, stake) pairs" % n,
                                         {"vccs": len(ra) * len(rb)}))
            status = "discharged"
            for s1, d1 in ra:
                for s2, d2 in rb:
                    same_seq = z3.And([z3.And([x for x in a.fields if isinstance(x, Abs)][0].term == [x for x in b.fields if isinstance(x, Abs)][0].term,
                                             [x for x in a.fields if z3.is_expr(x)][0] == [x for x in b.fields if z3.is_expr(x)][0]) for a, b in zip(d1["sorted"].fields, d2["sorted"].fields)])
                    r = smt.check(list(s1.pc) + list(s2.pc) + [d1["root"] == d2["root"], z3.Not(same_seq)], timeout_s=tmo)
                    ob.solver_s += r.seconds
                    if r.status == "sat":
                        status = "failed"
                        ob.counterexample = {a: b for a, b in smt.model_to_dict(r.model).items() if a.startswith(("key", "stake"))}
                        failures.append(("not_injective", n, (), ob))
                        break
                    if r.status != "unsat":
                        status = "inconclusive"
                        rep.inconcl("%s: %s" % (ob.name, r.reason))
                if status == "failed":
                    break
            ob.status = status
        rep.functions += sorted(set("%s -> %s" % (a, b) for a, b in ctx.I.calls_seen.items() if b.startswith("mir:")))
    except Unencodable as e:
        rep.inconcl("unencodable: %s" % e)
    try:
        key_order(rep, prog, tmo, failures)
    except Unencodable as e:
        rep.inconcl("unencodable (key order): %s" % e)
    try:
        leaf_encoding(rep, prog, tmo, failures)
    except Unencodable as e:
        rep.inconcl("unencodable (leaf encoding): %s" % e)
    k = 0
    seen = set()
    for clause, n, order, ob in failures:
        role = "c06-" + clause
        ob.role = role
        if role in seen:
            continue
        seen.add(role)
        k += 1
        native = {}
        reproduced = False
        try:
            from checks.c01 import native_stm
            native["avk_orders"] = native_stm("avk_orders")
            reproduced = "VIOLATED" in native["avk_orders"]
        except Exception as e:
            native["error"] = str(e)
        path = core.write_replay("C06", k, {"property": "C06", "role": role, "n": n, "order": order, "counterexample": ob.counterexample, "native_replay": native})
        rep.violation(role, "%s n=%d %s: %s; native %s" % (clause, n, order, ob.counterexample, native), path, reproduced)
        if reproduced:
            rep.traces_validated += 1
    return rep.finish()
