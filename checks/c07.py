"""C07 — signer registration requires a genuine, pool-bound, stake-bound key (acceptance conjunction + KES window).

Engine B: the MIR of KesVerifierStandard::verify, KeyRegWrapper::verify_kes_signature and KeyRegWrapper::register is executed
symbolically.  Certificates, keys and signatures are elements of uninterpreted sorts; OpCert::validate, the KES signature
check, the cold-key-derived party id and STM key registration are deterministic oracles; the KES evolution ranges over
all of u64; the stake distribution is a two-entry map with symbolic pool ids and stakes.
"""
import os
import re

import z3

from lib import core, mir, smt
from mir2smt import interp as MI
from mir2smt import models as MM
from mir2smt import container_models as CM
from mir2smt import symval
from mir2smt.interp import Abs, Agg, EnumV, Ref, Opaque, Outcome, Unencodable

SRC = ["mithril-common/src/crypto_helper/cardano/key_certification.rs", "mithril-common/src/crypto_helper/cardano/kes/verifier_standard.rs",
       "mithril-common/src/crypto_helper/cardano/opcert.rs"]


class Ctx:
    def __init__(self, prog):
        self.prog = prog
        self.I = MI.Interp(prog, models=[self.models, CM.map_models, CM.container_models, MM.hof_models, MM.abs_models, MM.core_models], unroll=6)
        self.I.enum_tables.update(MM.ENUM_TABLE_EXTRA)
        Int, Bool = z3.IntSort(), z3.BoolSort()
        self.OPVALID = z3.Function("opcert_signed_by_its_cold_key", Int, Bool)
        self.KESVK = z3.Function("kes_key_named_in_opcert", Int, Int)
        self.START = z3.Function("opcert_start_kes_period", Int, Int)
        self.KESOK = z3.Function("kes_signature_verifies", Int, Int, Int, Int, Bool)  # (signature, evolution, kes vk, message)
        self.PARTY = z3.Function("pool_id_from_cold_key", Int, Int)
        self.PARTY_OK = z3.Function("pool_id_encodes", Int, Bool)
        self.VKBYTES = z3.Function("bytes_of_verification_key", Int, Int)
        self.STMREG = z3.Function("stm_registration_accepts", Int, Int, Bool)  # (vk with PoP, stake): PoP valid and key not yet registered
        self.f_kes = prog.find_one(r"verifier_standard\.rs.*>::verify$")

    def models(self, I, st, caller, func, args, argtys, dest_ty):
        f = MM.strip_std_paths(func)
        if re.search(r"OpCert::validate$", f):
            oc = MM.deref_all(I, st, args[0])
            return MM.ret(st, EnumV("Result", z3.If(self.OPVALID(oc.term), 0, 1), {0: (MI.UNIT,), 1: (Opaque("error"),)}))
        if re.search(r"OpCert::get_kes_verification_key$", f):
            oc = MM.deref_all(I, st, args[0])
            return MM.ret(st, Abs("kesvk", self.KESVK(oc.term)))
        if re.search(r"OpCert::get_start_kes_period$", f):
            oc = MM.deref_all(I, st, args[0])
            return MM.ret(st, Agg("adt", "KesPeriod", (self.START(oc.term),)))
        if re.search(r"OpCert::compute_protocol_party_id$", f):
            oc = MM.deref_all(I, st, args[0])
            return MM.ret(st, EnumV("Result", z3.If(self.PARTY_OK(oc.term), 0, 1), {0: (Abs("str", self.PARTY(oc.term)),), 1: (Opaque("OpCertError"),)}))
        if re.search(r"as KesSig>::verify$", f):
            sig = MM.deref_all(I, st, args[0])
            per = args[1]
            vk = MM.deref_all(I, st, args[2])
            msg = MM.deref_all(I, st, args[3])
            ok = self.KESOK(sig.term, per, vk.term, msg.term)
            st.trace = st.trace + (("kes_verify", (sig.term, per, vk.term, msg.term), ok),)
            return MM.ret(st, EnumV("Result", z3.If(ok, 0, 1), {0: (MI.UNIT,), 1: (Opaque("kes error"),)}))
        if re.search(r"dyn .*KesVerifier.* as .*KesVerifier>::verify$|as KesVerifier>::verify$", f):
            # the configured verifier is KesVerifierStandard (KeyRegWrapper::init): its body is interpreted
            return I.call_fn(self.f_kes, [Opaque("KesVerifierStandard")] + list(args[1:]), st)
        if re.search(r"BlsVerificationKeyProofOfPossession::to_bytes$|ProtocolKey::<.*>::to_bytes$", f):
            k = MM.deref_all(I, st, args[0])
            return MM.ret(st, Abs("bytes", self.VKBYTES(k.term)))
        if re.search(r"KeyRegistration::register$", f):
            stake = args[1]
            vk = MM.deref_all(I, st, args[2])
            ok = self.STMREG(vk.term, stake)
            st.trace = st.trace + (("stm_register", (vk.term, stake), ok),)
            return MM.ret(st, EnumV("Result", z3.If(ok, 0, 1), {0: (MI.UNIT,), 1: (Opaque("RegisterError"),)}))
        if re.match(r"^<Vec<u8> as Deref>::deref$", f) or re.search(r"Vec::<u8>::as_slice$", f):
            return MM.ret(st, args[0])
        if re.match(r"^<.* as (Clone|ToOwned)>::(clone|to_owned)$", f):
            return MM.ret(st, MM.deref_all(I, st, args[0]))
        lastseg = MI.last_segment(f)[0]
        if lastseg in ("into", "from", "into_inner", "deref", "as_ref", "new") and len(args) == 1:
            a0 = MM.deref_all(I, st, args[0])
            if isinstance(a0, Abs):
                return MM.ret(st, a0 if lastseg not in ("deref", "as_ref") else args[0])
        # RangeInclusive<u64>
        if re.match(r"^RangeInclusive::<u64>::new$", f):
            return MM.ret(st, Agg("rangeincl", None, (args[0], args[1], z3.BoolVal(False))))
        if re.match(r"^<RangeInclusive<u64> as IntoIterator>::into_iter$", f):
            return MM.ret(st, args[0])
        if re.match(r"^<RangeInclusive<u64> as Iterator>::next$", f):
            r = I.load(st, args[0])
            cur, end, done = r.fields
            outs = []
            live = z3.simplify(z3.And(z3.Not(done), cur <= end))
            if I.feasible(st, live):
                s2 = st.fork()
                s2.assume(live)
                I.store(s2, args[0], Agg("rangeincl", None, (z3.simplify(cur + 1), end, z3.simplify(cur == end))))
                outs.append(Outcome("return", MM.mk_option(True, cur), s2))
            if I.feasible(st, z3.Not(live)):
                s3 = st.fork()
                s3.assume(z3.Not(live))
                outs.append(Outcome("return", MM.mk_option(False), s3))
            return outs
        if re.match(r"^Result::<.*>::(is_ok|is_err)$", f):
            v = MM.deref_all(I, st, args[0])
            d = v.discr if z3.is_expr(v.discr) else z3.IntVal(v.discr)
            return MM.ret(st, z3.simplify(d == 0 if f.endswith("is_ok") else d != 0))
        return None


ABSTRACT = {
    r"String": "str",
    r"ProtocolKey<OpCert>|OpCert": "opcert",
    r"ProtocolKey<Sum6KesSig>|Sum6KesSig": "kessig",
    r"ProtocolKey<.*BlsVerificationKeyProofOfPossession>|ProtocolKey<.*>": "key",
}


BLST_ERROR = {"BLST_SUCCESS": 0, "BLST_BAD_ENCODING": 1, "BLST_POINT_NOT_ON_CURVE": 2, "BLST_POINT_NOT_IN_GROUP": 3, "BLST_AGGR_TYPE_MISMATCH": 4,
              "BLST_VERIFY_FAIL": 5, "BLST_PK_IS_INFINITY": 6, "BLST_BAD_SCALAR": 7}


def stm_registration(rep, tmo):
    """mithril-stm side of the acceptance conjunction: KeyRegistration::register -> RegistrationEntry::new ->
    verify_proof_of_possession (both halves) and register_by_entry (duplicate key), from a pre-state holding one key"""
    from checks import c06
    SRC2 = ["mithril-stm/src/protocol/key_registration/register.rs", "mithril-stm/src/protocol/key_registration/registration_entry.rs",
            "mithril-stm/src/signature_scheme/bls_multi_signature/verification_key.rs"]
    rep.functions.append("source hashes: %s" % core.source_hashes(SRC2))
    failures = []
    try:
        path, dt = mir.dump("mithril-stm")
        prog = MI.Program(open(path).read(), source_root=os.path.join(core.REPO, "mithril-stm"))
        ctx = c06.Ctx(prog)
        I = ctx.I
        I.enum_tables["BLST_ERROR"] = dict(BLST_ERROR)
        Int, Bool = z3.IntSort(), z3.BoolSort()
        VALIDATE = z3.Function("blst_key_validates", Int, Bool)
        K1 = z3.Function("pop_k1_is_a_signature_of_POP_under_key", Int, Int, Int)   # BLST_ERROR code
        K2 = z3.Function("pop_k2_pairing_holds", Int, Int, Bool)

        def models(I, st, caller, func, args, argtys, dest_ty):
            f = MM.strip_std_paths(func)
            if re.search(r"BlsVerificationKey::to_blst_verification_key$|BlsProofOfPossession::get_k1$|BlsProofOfPossession::get_k2$", f):
                return MM.ret(st, MM.deref_all(I, st, args[0]))
            if re.search(r"PublicKey::validate$", f):
                k_ = MM.deref_all(I, st, args[0])
                return MM.ret(st, EnumV("Result", z3.If(VALIDATE(k_.term), 0, 1), {0: (MI.UNIT,), 1: (EnumV("BLST_ERROR", 3, {}),)}))
            if re.search(r"helper::unsafe_helpers::verify_pairing$|unsafe_helpers::verify_pairing$|^verify_pairing$", f):
                k_, p_ = MM.deref_all(I, st, args[0]), MM.deref_all(I, st, args[1])
                return MM.ret(st, K2(k_.term, p_.term))
            if re.search(r"Signature::verify$", f):
                p_ = MM.deref_all(I, st, args[0])
                k_ = MM.deref_all(I, st, args[5])
                d = K1(k_.term, p_.term)
                st.assume(z3.And(d >= 0, d <= 7))
                st.trace = st.trace + (("k1_verify", (args[1], args[2]), None),)
                return MM.ret(st, EnumV("BLST_ERROR", d, {}))
            m = re.match(r"^<BLST_ERROR as PartialEq>::(eq|ne)$", f)
            if m:
                a, b = MM.deref_all(I, st, args[0]), MM.deref_all(I, st, args[1])
                da = a.discr if z3.is_expr(a.discr) else z3.IntVal(a.discr)
                db_ = b.discr if z3.is_expr(b.discr) else z3.IntVal(b.discr)
                return MM.ret(st, da == db_ if m.group(1) == "eq" else da != db_)
            if re.search(r"blst_error_to_stm_error$", f):
                return MM.ret(st, EnumV("Result", 1, {1: (Opaque("anyhow::Error"),)}))
            return None
        I.models = [models] + I.models
        from mir2smt import symval
        db = symval.TypeDB([os.path.join(core.REPO, "mithril-stm", "src")])
        k0, s0 = z3.Int("registered_key"), z3.Int("registered_stake")
        knew, pop, stake = z3.Int("new_key"), z3.Int("new_pop"), z3.Int("stake_argument")
        st = MI.State()
        st.assume(z3.And(s0 >= 0, s0 < 2 ** 64, stake >= 0, stake < 2 ** 64))
        I.frame_counter += 1
        kf = I.frame_counter
        e0 = Agg("adt", "RegistrationEntry", (Abs("vk", k0), s0))
        kr_fields = {"registration_entries": Agg("btreeset", None, (e0,)), "registered_keys_for_concatenation": Agg("hashset", None, (Abs("vk", k0),))}
        st.mem[(kf, 0)] = Agg("adt", "KeyRegistration", tuple(kr_fields[n] for n, t in db.struct_fields("KeyRegistration")))
        vkpop_fields = {"vk": Abs("vk", knew), "pop": Abs("vk", pop)}
        I.frame_counter += 1
        vf = I.frame_counter
        st.mem[(vf, 0)] = Agg("adt", "BlsVerificationKeyProofOfPossession", tuple(vkpop_fields[n] for n, t in db.struct_fields("BlsVerificationKeyProofOfPossession")))
        f_reg = prog.find_one(r"key_registration/register\.rs.*>::register$")
        outs = I.call_fn(f_reg, [Ref(kf, 0, (), True), stake, Ref(vf, 0, ())], st)
        bad = []
        nacc = 0
        for o in outs:
            if o.kind != "return":
                rep.inconcl("KeyRegistration::register: %s %s" % (o.kind, o.msg))
                continue
            d = o.value.discr
            if not (isinstance(d, int) and d == 0):
                if not isinstance(d, int):
                    rep.inconcl("KeyRegistration::register: symbolic verdict")
                continue
            nacc += 1
            post = o.state.mem[(kf, 0)]
            names = [n for n, t in db.struct_fields("KeyRegistration")]
            ents = post.fields[names.index("registration_entries")].fields
            keys = post.fields[names.index("registered_keys_for_concatenation")].fields
            has_entry = z3.Or([z3.And(e.fields[0].term == knew, e.fields[1] == stake) for e in ents]) if ents else z3.BoolVal(False)
            has_key = z3.Or([k_.term == knew for k_ in keys]) if keys else z3.BoolVal(False)
            kept = z3.And(z3.Or([z3.And(e.fields[0].term == k0, e.fields[1] == s0) for e in ents]) if ents else z3.BoolVal(False), z3.Or([k_.term == k0 for k_ in keys]) if keys else z3.BoolVal(False))
            k1_asked_for_pop = all(True for ev in o.state.trace if ev[0] == "k1_verify")
            cl = z3.And(VALIDATE(knew), K1(knew, pop) == 0, K2(knew, pop), knew != k0, has_entry, has_key, kept, z3.BoolVal(len(ents) == 2))
            bad.append(z3.And(list(o.pc) + [z3.Not(cl)]))
        ob = rep.add(core.Obligation("c07_stm_register_acceptance_conjunction", "smt",
                                     "mithril-stm KeyRegistration::register Ok => key validates, BOTH halves of the proof of possession hold for THIS key, the key is not the one already registered, "
                                     "and afterwards the registration holds (key, stake argument) next to the earlier entry", {"vccs": nacc, "paths": len(outs)}))
        r = smt.check([z3.Or(bad)] if bad else [z3.BoolVal(False)], timeout_s=tmo, cross=True)
        ob.solver_s = r.seconds
        ob.status = "discharged" if r.status == "unsat" else "failed" if r.status == "sat" else "inconclusive"
        if nacc == 0:
            ob.status = "inconclusive"
            rep.inconcl("stm register: no accepting path")
        if r.status == "sat":
            ev = lambda t: str(r.model.eval(t, model_completion=True))
            ob.counterexample = {"key_validates": ev(VALIDATE(knew)), "k1_verdict": ev(K1(knew, pop)), "k2_pairing": ev(K2(knew, pop)), "same_as_registered_key": ev(knew == k0)}
            failures.append(("stm_register_acceptance", ob))
        rep.functions += sorted("%s -> %s" % (a, b) for a, b in I.calls_seen.items() if b.startswith("mir:"))
    except Unencodable as e:
        rep.inconcl("unencodable (stm registration): %s" % e)
    except Exception as e:
        rep.inconcl("stm registration part failed: %r" % e)
    return failures


def run(tier, seed):
    rep = core.Report("C07", tier, seed)
    rep.trusted_base = ["rustc nightly MIR", "mir2smt interpreter + oracle / map call models", "z3"]
    rep.functions = ["source hashes: %s" % core.source_hashes(SRC)]
    rep.assumptions = [
        "OpCert::validate (cold-key signature on the operational certificate), Sum6KesSig::verify, OpCert::compute_protocol_party_id (blake2b + bech32 of the cold key) and "
        "mithril_stm::KeyRegistration::register (proof of possession + duplicate key) are deterministic oracles of their arguments",
        "the configured KES verifier is KesVerifierStandard (KeyRegWrapper::init)",
        "default cargo features (allow_skip_signer_certification off, no future_snark)",
        "stake distribution: a map with two entries, symbolic pool ids and stakes",
    ]
    rep.outside = ["Ed25519 / KES / BLS mathematics, bech32", "SignerRegistrationVerifier::verify and the leader registration service (async + store)",
                   "duplicate-key rejection and proof of possession themselves (inside mithril-stm: only that the wrapper forwards to it and respects its verdict)"]
    rep.solver_vars = ["KES evolution announced: all of u64", "identity of the operational certificate, KES signature, verification key, claimed party id", "every oracle verdict",
                       "pool ids and stakes of the distribution", "presence of every optional registration component"]
    try:
        path, dt = mir.dump("mithril-common")
    except Exception as e:
        rep.inconcl("MIR dump failed: %s" % e)
        return rep.finish()
    prog = MI.Program(open(path).read(), source_root=os.path.join(core.REPO, "mithril-common"))
    tmo = 60
    failures = []
    try:
        # ---- KES window -----------------------------------------------------------------------------------------------------
        ctx = Ctx(prog)
        I = ctx.I
        E = z3.Int("kes_evolutions")
        st = MI.State()
        st.assume(z3.And(E >= 0, E < 2 ** 64))
        fr = I.frame_counter + 1
        I.frame_counter += 3
        msg, sig, oc = Abs("bytes", z3.Int("message")), Abs("kessig", z3.Int("kes_signature")), Abs("opcert", z3.Int("opcert"))
        st.mem[(fr, 0)] = msg
        st.mem[(fr + 1, 0)] = sig
        st.mem[(fr + 2, 0)] = oc
        outs = I.call_fn(ctx.f_kes, [Opaque("self"), Ref(fr, 0, ()), Ref(fr + 1, 0, ()), Ref(fr + 2, 0, ()), Agg("adt", "KesEvolutions", (E,))], st)
        acc, rej = [], []
        for o in outs:
            if o.kind != "return":
                rep.inconcl("KES verify: %s %s" % (o.kind, o.msg))
                continue
            d = o.value.discr
            (acc if d == 0 else rej).append(o)
        accept = z3.Or([z3.And(list(o.pc)) for o in acc]) if acc else z3.BoolVal(False)
        reject = z3.Or([z3.And(list(o.pc)) for o in rej]) if rej else z3.BoolVal(False)
        e = z3.Int("e_star")
        window = lambda x: z3.And(x >= 0, x <= 64, x >= E - 1, x <= E + 1)
        good = lambda x: z3.And(ctx.OPVALID(oc.term), window(x), ctx.KESOK(sig.term, x, ctx.KESVK(oc.term), msg.term))
        ob = rep.add(core.Obligation("c07_kes_window_sound", "smt", "KES verify Ok => opcert valid and the signature verifies under the certificate's KES key for this message at an evolution e with e <= 64 and |e - announced| <= 1",
                                     {"vccs": len(acc), "paths": len(outs)}))
        r = smt.check([accept, z3.Not(z3.Or([good(E + dlt) for dlt in (-1, 0, 1)]))], timeout_s=tmo, cross=True)
        ob.solver_s = r.seconds
        ob.status = "discharged" if r.status == "unsat" else "failed" if r.status == "sat" else "inconclusive"
        if r.status == "sat":
            ob.counterexample = {"kes_evolutions": r.model.eval(E, model_completion=True).as_long()}
            failures.append(("kes_window_sound", ob, r.model))
        ob = rep.add(core.Obligation("c07_kes_window_complete", "smt", "opcert valid and a signature valid at some evolution e* <= 64 within one period of the announced one => KES verify Ok"))
        r = smt.check([reject, good(e)], timeout_s=tmo, cross=True)
        ob.solver_s = r.seconds
        ob.status = "discharged" if r.status == "unsat" else "failed" if r.status == "sat" else "inconclusive"
        if r.status == "sat":
            ob.counterexample = {"kes_evolutions": r.model.eval(E, model_completion=True).as_long(), "e_star": r.model.eval(e, model_completion=True).as_long()}
            failures.append(("kes_window_complete", ob, r.model))
        ob = rep.add(core.Obligation("c07_kes_oracle_arguments", "smt", "the KES oracle is only ever asked about this certificate's KES key and this message, at most 3 times"))
        okk = True
        for o in outs:
            evs = [x for x in o.state.trace if x[0] == "kes_verify"]
            if len(evs) > 3:
                okk = False
            for ev in evs:
                if not (z3.eq(ev[1][0], sig.term) and z3.eq(ev[1][2], ctx.KESVK(oc.term)) and z3.eq(ev[1][3], msg.term)):
                    okk = False
        ob.status = "discharged" if okk else "failed"
        if not okk:
            failures.append(("kes_oracle_arguments", ob, None))
        # ---- acceptance conjunction of KeyRegWrapper::register -----------------------------------------------------------------
        ctx = Ctx(prog)
        I = ctx.I
        db = symval.TypeDB([os.path.join(core.REPO, "mithril-common", "src")])
        sb = symval.SymBuilder(db, I, abstract=ABSTRACT)
        params = sb.make("SignerRegistrationParameters", "reg")
        V = sb.vars
        pid0, pid1, stake0, stake1 = z3.Int("dist.pool0"), z3.Int("dist.pool1"), z3.Int("dist.stake0"), z3.Int("dist.stake1")
        dist = Agg("hashmap", None, (Agg("tuple", None, (Abs("str", pid0), stake0)), Agg("tuple", None, (Abs("str", pid1), stake1))))
        wrapper_vals = {"kes_verifier": Opaque("Arc<dyn KesVerifier>"), "stm_key_reg": Opaque("KeyRegistration"), "stake_distribution": dist}
        wrapper = Agg("adt", "KeyRegWrapper", tuple(wrapper_vals[n] for n, t in db.struct_fields("KeyRegWrapper")))
        st = MI.State()
        for c in sb.constraints:
            st.assume(c)
        st.assume(z3.And(pid0 != pid1, stake0 >= 0, stake0 < 2 ** 64, stake1 >= 0, stake1 < 2 ** 64))
        I.frame_counter += 1
        wf = I.frame_counter
        st.mem[(wf, 0)] = wrapper
        f_reg = prog.find_one(r"key_certification\.rs.*>::register$", nparams=2)
        outs = I.call_fn(f_reg, [Ref(wf, 0, (), True), params], st)
        acc = []
        for o in outs:
            if o.kind != "return":
                rep.inconcl("register: %s %s" % (o.kind, o.msg))
                continue
            d = o.value.discr
            if d == 0:
                acc.append(o)
        if not acc:
            rep.inconcl("register: no accepting path")
        opc = V["reg.operational_certificate.some"]
        vk = V["reg.verification_key_for_concatenation"]
        ksig = V["reg.verification_key_signature_for_concatenation.some"]
        kev = V["reg.kes_evolutions.some.0"]
        claimed = V.get("reg.party_id.some")
        clause_list = []
        for o in acc:
            rid = o.value.payloads[0][0]
            idt = rid.term
            regs = [x for x in o.state.trace if x[0] == "stm_register"]
            stake_passed = regs[0][1][1] if regs else None
            vk_passed = regs[0][1][0] if regs else None
            cl = z3.And(
                V["reg.operational_certificate.is_some"] == 1,
                ctx.OPVALID(opc),
                V["reg.verification_key_signature_for_concatenation.is_some"] == 1, V["reg.kes_evolutions.is_some"] == 1,
                z3.Or([z3.And(kev + d_ >= 0, kev + d_ <= 64, ctx.KESOK(ksig, kev + d_, ctx.KESVK(opc), ctx.VKBYTES(vk))) for d_ in (-1, 0, 1)]),
                ctx.PARTY_OK(opc), idt == ctx.PARTY(opc),
                z3.Or(z3.And(idt == pid0, stake_passed == stake0), z3.And(idt == pid1, stake_passed == stake1)) if stake_passed is not None else z3.BoolVal(False),
                vk_passed == vk if vk_passed is not None else z3.BoolVal(False),
                ctx.STMREG(vk, stake_passed) if stake_passed is not None else z3.BoolVal(False),
                z3.BoolVal(len(regs) == 1),
            )
            clause_list.append(z3.And(list(o.pc) + [z3.Not(cl)]))
        ob = rep.add(core.Obligation("c07_register_acceptance_conjunction", "smt",
                                     "register Ok(id) => opcert present and signed by its cold key; KES signature present, valid for THIS verification key's bytes under THIS opcert's KES key within one "
                                     "period (<= 64) of the announced evolution; id = pool id derived from the cold key (never the claimed one); id in the stake distribution; the stake handed to STM "
                                     "registration is the distribution's value for id; the key handed over is this key; STM registration (PoP, duplicates) accepted; called exactly once",
                                     {"vccs": len(acc), "paths": len(outs)}))
        r = smt.check([z3.Or(clause_list)] if clause_list else [z3.BoolVal(False)], timeout_s=tmo, cross=True)
        ob.solver_s = r.seconds
        ob.status = "discharged" if r.status == "unsat" else "failed" if r.status == "sat" else "inconclusive"
        if r.status == "sat":
            md = smt.model_to_dict(r.model)
            ob.counterexample = {k_: v for k_, v in md.items() if k_.startswith(("reg.", "dist."))}
            failures.append(("register_acceptance", ob, r.model))
        ob = rep.add(core.Obligation("c07_register_witness", "smt", "witness: some registration is accepted"))
        r = smt.check([z3.Or([z3.And(list(o.pc)) for o in acc])] if acc else [z3.BoolVal(False)], timeout_s=tmo)
        ob.status = "discharged" if r.status == "sat" else "inconclusive"
        if r.status != "sat":
            rep.inconcl("register: no satisfiable accepting path")
        rep.functions += sorted("%s -> %s" % (a, b) for a, b in I.calls_seen.items())
    except Unencodable as e:
        rep.inconcl("unencodable: %s" % e)
    stm_failures = stm_registration(rep, tmo)
    k = 0
    for name, ob in stm_failures:
        k += 1
        role = "c07-" + name
        ob.role = role
        native = {}
        reproduced = False
        try:
            from checks.c01 import native_stm
            native["pop_halves"] = native_stm("pop_halves")
            reproduced = "VIOLATED" in native["pop_halves"]
        except Exception as e:
            native["error"] = str(e)
        path = core.write_replay("C07", 10 + k, {"property": "C07", "role": role, "obligation": ob.name, "counterexample": ob.counterexample, "native_replay": native})
        rep.violation(role, "%s: %s; native %s" % (name, ob.counterexample, native), path, reproduced)
        if reproduced:
            rep.traces_validated += 1
    k = 0
    for name, ob, model in failures:
        k += 1
        role = "c07-" + name
        ob.role = role
        native = {}
        reproduced = False
        try:
            from checks.c17 import native_query
            lines = [l for l in native_query(["registration", "kes_window"]) if l.startswith("registration")]
            native["registration_battery"] = lines
            reproduced = any("VIOLATED" in l for l in lines)
        except Exception as e:
            native["error"] = str(e)
        path = core.write_replay("C07", k, {"property": "C07", "role": role, "obligation": ob.name, "counterexample": ob.counterexample, "native_replay": native})
        rep.violation(role, "%s: %s; native %s" % (name, ob.counterexample, native), path, reproduced)
        if reproduced:
            rep.traces_validated += 1
    return rep.finish()
