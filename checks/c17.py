"""C17 — beacons to sign respect the security margin, are monotone, move in whole steps, agreed by all.

Engine B: the MIR of mithril-common (dumped from /repo's working tree on every run) is executed
symbolically; integers are mathematical Ints constrained to the machine range, overflow checks are
reachable-panic obligations, division by the symbolic step uses fresh quotient/remainder variables
tied by the division lemma, and divisibility claims are stated with those quotients as witnesses.
"""
import os
import re
import subprocess
import time

import z3

from lib import core, mir, smt
from mir2smt import interp as MI
from mir2smt import models as MM
from mir2smt import symval

U64 = 2 ** 64
SRC = ["mithril-common/src/entities/signed_entity_config.rs", "mithril-common/src/entities/block_range.rs",
       "mithril-common/src/entities/block_number.rs", "mithril-common/src/entities/arithmetic_operation_wrapper.rs",
       "mithril-common/src/entities/epoch.rs", "mithril-common/src/entities/signed_entity_type.rs"]


def BN(v):
    return MI.Agg("adt", "BlockNumber", (v,))


def OFF(v):
    return MI.Agg("adt", "BlockNumberOffset", (v,))


def scalar(v):
    """unwrap single-field newtypes down to the z3 integer"""
    while isinstance(v, MI.Agg) and len(v.fields) == 1:
        v = v.fields[0]
    return v


def parse_repo_table_tests():
    """(kind, tip, sec, step, expected) rows from the repo's own #[cfg(test)] table in signed_entity_config.rs"""
    p = os.path.join(core.REPO, "mithril-common/src/entities/signed_entity_config.rs")
    src = open(p).read()
    rows = []
    for kind, modname in (("tx", "compute_block_number_to_be_signed_for_cardano_transactions"),
                          ("blocks", "compute_block_number_to_be_signed_for_cardano_blocks_transactions")):
        m = re.search(r"mod %s \{" % modname, src)
        if not m:
            continue
        from mir2smt import parser as P
        j = P.find_matching(src, m.end() - 1)
        body = src[m.end():j]

        def ev(e):
            e = e.replace("BlockRange::LENGTH", "15")
            e = re.sub(r"BlockNumber(?:Offset)?\(([^()]*)\)", r"(\1)", e)
            e = e.replace("u64::MAX", str(U64 - 1))
            if not re.fullmatch(r"[\d\s+\-*/()]+", e):
                return None
            return int(eval(e, {"__builtins__": {}}))

        for t in re.split(r"#\[test\]", body)[1:]:
            mt = re.search(r"let block_number = (.*?);", t, re.S)
            ms = re.search(r"security_parameter: (.*?),\n", t)
            mp = re.search(r"step: (.*?),\n", t)
            me = re.search(r"compute_block_number_to_be_signed\(block_number\),\s*(.*?)\s*\);", t, re.S)
            if not (mt and ms and mp and me):
                continue
            vals = [ev(x.group(1).strip()) for x in (mt, ms, mp, me)]
            if None in vals:
                continue
            rows.append((kind,) + tuple(vals))
    return rows


def native_beacons(rows, profile="dev"):
    """run the real functions natively (replay/common) on (kind, tip, sec, step) rows"""
    cdir = os.path.join(core.REPLAY_CRATES, "common")
    import shutil
    shutil.copyfile(os.path.join(core.REPO, "Cargo.lock"), os.path.join(cdir, "Cargo.lock"))
    env = dict(os.environ)
    env["CARGO_NET_OFFLINE"] = "true"
    cmd = ["cargo", "run", "--offline", "-q", "--target-dir", os.path.join(core.CACHE, "replay-target")]
    if profile == "release":
        cmd.append("--release")
    inp = "".join("beacon %s %d %d %d\n" % r[:4] for r in rows)
    p = subprocess.run(cmd, cwd=cdir, env=env, input=inp, stdout=subprocess.PIPE, stderr=subprocess.PIPE, text=True, timeout=1500)
    if p.returncode != 0:
        raise RuntimeError("native replay build/run failed: " + p.stderr[-400:])
    return [l.strip() for l in p.stdout.strip().split("\n")]


def native_query(lines, profile="dev"):
    cdir = os.path.join(core.REPLAY_CRATES, "common")
    env = dict(os.environ)
    env["CARGO_NET_OFFLINE"] = "true"
    cmd = ["cargo", "run", "--offline", "-q", "--target-dir", os.path.join(core.CACHE, "replay-target")]
    if profile == "release":
        cmd.append("--release")
    p = subprocess.run(cmd, cwd=cdir, env=env, input="\n".join(lines) + "\n", stdout=subprocess.PIPE, stderr=subprocess.PIPE, text=True, timeout=1500)
    if p.returncode != 0:
        raise RuntimeError("native replay build/run failed: " + p.stderr[-400:])
    return [l.strip() for l in p.stdout.strip().split("\n")]


def entity_line(dname, md):
    g = lambda k: int(md.get(k, 0) or 0)
    return "entity %s %d %d %d %d %d %d %d %d %d %d" % (
        dname, g("tp.epoch.0"), g("tp.immutable_file_number"), g("tp.chain_point.slot_number.0"), g("tp.chain_point.block_number.0"),
        g("cfg.cardano_transactions_signing_config.is_some"), g("cfg.cardano_transactions_signing_config.some.security_parameter.0"),
        g("cfg.cardano_transactions_signing_config.some.step.0"),
        g("cfg.cardano_blocks_transactions_signing_config.is_some"), g("cfg.cardano_blocks_transactions_signing_config.some.security_parameter.0"),
        g("cfg.cardano_blocks_transactions_signing_config.some.step.0"))


class Enc:
    """symbolic runs of the three beacon functions"""

    def __init__(self, prog, I):
        self.prog = prog
        self.I = I
        self.f_tx = prog.find_one(r"::compute_block_number_to_be_signed$", nparams=2, param_regex=r"&(\w+::)*CardanoTransactionsSigningConfig\b")
        self.f_bk = prog.find_one(r"::compute_block_number_to_be_signed$", nparams=2, param_regex=r"&(\w+::)*CardanoBlocksTransactionsSigningConfig\b")

    def run(self, kind, tip, sec, step):
        f = self.f_tx if kind == "tx" else self.f_bk
        st = MI.State()
        self.I.frame_counter += 1
        fr = self.I.frame_counter
        st.mem[(fr, 1)] = MI.Agg("adt", "Cfg", (OFF(sec), BN(step)))
        for v in (tip, sec, step):
            if z3.is_expr(v) and not z3.is_int_value(v):
                st.assume(z3.And(v >= 0, v < U64))
        return self.I.call_fn(f, [MI.Ref(fr, 1, ()), BN(tip)], st)


def spec_step(kind, step):
    if kind == "blocks":
        return z3.If(step >= 1, step, 1)
    k = step / 15
    return z3.If(k >= 1, k * 15, 15)


def run(tier, seed):
    rep = core.Report("C17", tier, seed)
    rep.trusted_base = ["rustc nightly MIR (-Zunpretty=mir)", "mir2smt interpreter + call-model table (mir2smt/models.py)", "z3 4.x (python API)", "cvc5 1.0 cross-check"]
    rep.assumptions = [
        "epoch < 2^63 (Epoch::offset_by casts to i64: at epoch = 2^63 the dev profile panics on `i64::MIN + -1`, release wraps to the right value; not a reachable Cardano epoch, reported as a note)",
        "configuration domain: step <= 2^63 (BlockRange::from_block_number(step) computes start+15, which overflows for step > 2^64-16: reported as a note, not a violation)",
        "machine integers as mathematical Ints with explicit range constraints; overflow-checks=on semantics (dev / ci-tests profile): overflow = panic obligation",
        "division by the symbolic step: fresh q,r with a = q*d + r, 0 <= r < d (division lemma)",
        "std::cmp::max::<T> = match Ord::cmp(&a,&b) {Greater => a, _ => b}, with T's own derived Ord body taken from the dump",
        "time_point_to_signed_entity<D> is encoded at D = SignedEntityTypeDiscriminants (Into is the identity)",
    ]
    rep.outside = ["list_allowed_signed_entity_types (BTreeSet iteration)", "how signer and aggregator obtain the same TimePoint and configuration (network, async)",
                   "step > 2^63"]
    rep.functions = ["source hashes: %s" % core.source_hashes(SRC)]
    try:
        path, dt = mir.dump("mithril-common")
    except Exception as e:
        rep.inconcl("MIR dump failed: %s" % e)
        return rep.finish()
    rep.notes.append("MIR dump of mithril-common: %.1fs" % dt)
    prog = MI.Program(open(path).read(), source_root=os.path.join(core.REPO, "mithril-common"))
    I = MI.Interp(prog, models=[MM.core_models], unroll=4)
    I.enum_tables.update(MM.ENUM_TABLE_EXTRA)
    cross = True
    tmo = 60 if tier == "quick" else 300
    try:
        enc = Enc(prog, I)
        decide(rep, enc, I, prog, tier, cross, tmo)
    except MI.Unencodable as e:
        rep.inconcl("unencodable: %s" % e)
    rep.functions += sorted("%s -> %s" % (k, v) for k, v in I.calls_seen.items())
    rep.notes.append("interpreter stats: %s, feasibility checks %d" % (I.stats, I.solver_checks))
    return rep.finish()


def discharge(rep, name, desc, assertions, tmo, cross, bounds=None, on_sat=None):
    ob = rep.add(core.Obligation(name, "smt", desc, bounds or {"vccs": len(assertions)}))
    r = smt.check(assertions, timeout_s=tmo, cross=cross)
    ob.solver_s = r.seconds
    if r.status == "unsat":
        ob.status = "discharged"
        if r.cross:
            ob.detail = "cvc5: %s" % r.cross.get("cvc5")
            if r.cross.get("cvc5") not in ("unsat", "timeout") and not str(r.cross.get("cvc5")).startswith("unknown"):
                ob.status = "inconclusive"
                rep.inconcl("%s: cross-check said %s" % (name, r.cross))
    elif r.status == "sat":
        ob.status = "failed"
        ob.counterexample = smt.model_to_dict(r.model)
        if on_sat:
            on_sat(ob, r.model)
    else:
        ob.status = "inconclusive"
        ob.detail = r.reason
        rep.inconcl("%s: solver returned unknown (%s)" % (name, r.reason))
    return ob


def decide(rep, enc, I, prog, tier, cross, tmo):
    tip, tip2, sec, step = z3.Ints("tip tip2 security step")
    dom = [tip >= 0, tip < U64, tip2 >= 0, tip2 < U64, sec >= 0, sec < U64, step >= 0, step <= 2 ** 63]
    rep.solver_vars = ["tip, tip2, security_parameter: all of u64", "step: 0..=2^63", "epoch, immutable file number, slot: all of u64", "presence of each signing config: bool"]
    rep.bounds = {"loop_unroll": 4, "integer_width": 64, "step_max": "2^63"}
    failures = []

    def on_sat(kind, clause):
        def f(ob, model):
            failures.append((kind, clause, ob, model))
        return f

    # ---- translator validation -------------------------------------------------------------
    rows = parse_repo_table_tests()
    grid = []
    edge = [0, 1, 2, 14, 15, 16, 29, 30, 31, 44, 45, 100, 1000, 2 ** 32, 2 ** 63, U64 - 16, U64 - 1]
    import random
    rnd = random.Random(1234 + rep.seed)
    for kind in ("tx", "blocks"):
        for _ in range(40 if tier == "quick" else 200):
            grid.append((kind, rnd.choice(edge + [rnd.randrange(0, 5000)]), rnd.choice(edge[:12] + [rnd.randrange(0, 300)]),
                         rnd.choice(edge[:14] + [rnd.randrange(0, 200)])))
    allrows = [r[:4] for r in rows] + grid
    native = native_beacons(allrows)
    mismatches = 0
    for i, r in enumerate(allrows):
        kind, t, s, p = r
        outs = enc.run(kind, z3.IntVal(t), z3.IntVal(s), z3.IntVal(p))
        vals = []
        for o in outs:
            sl = z3.Solver()
            for c in o.pc:
                sl.add(c)
            if sl.check() == z3.sat:
                if o.kind == "return":
                    vals.append(str(sl.model().eval(scalar(o.value), model_completion=True)))
                else:
                    vals.append("panic")
        exp = [str(rows[i][4])] if i < len(rows) else None
        if exp and [native[i]] != exp:
            rep.notes.append("the working tree disagrees with its own table test on %s: native=%s expected=%s" % (r, native[i], exp))
        if len(vals) != 1 or vals[0] != native[i]:
            mismatches += 1
            rep.notes.append("translator validation mismatch on %s: encoding=%s native=%s repo-test-expectation=%s" % (r, vals, native[i], exp))
    rep.traces_validated = len(allrows) - mismatches
    rep.extra["translator_validation"] = {"repo_table_rows": len(rows), "grid_rows": len(grid), "mismatches": mismatches}
    if mismatches:
        rep.inconcl("translator invalid: %d of %d concrete rows disagree between the encoding and the native run" % (mismatches, len(allrows)))
        return
    if len(rows) < 10:
        rep.notes.append("only %d rows could be parsed from the repo's table tests" % len(rows))

    # ---- the beacon obligations ----------------------------------------------------------------
    for kind in ("tx", "blocks"):
        R1 = enc.run(kind, tip, sec, step)
        R2 = enc.run(kind, tip2, sec, step)
        S = spec_step(kind, step)
        margin = z3.If(tip - sec >= 0, tip - sec, 0)
        n_ret = 0
        for i, o in enumerate(R1):
            if o.kind == "exhausted":
                rep.inconcl("loop bound exhausted in %s" % kind)
                continue
            if o.kind == "panic":
                discharge(rep, "c17_%s_nopanic_%d" % (kind, i), "no reachable panic (%s) inside the configuration domain" % o.msg[:70],
                          dom + list(o.pc), tmo, cross, on_sat=on_sat(kind, "panic"))
                continue
            n_ret += 1
            b = scalar(o.value)
            pc = dom + list(o.pc)
            discharge(rep, "c17_%s_margin_%d" % (kind, i), "beacon <= max(tip - security, 0)", pc + [b > margin], tmo, cross, on_sat=on_sat(kind, "margin"))
            W = [q for (q, r, a, d) in o.state.aux.get("quot", ())] + [z3.IntVal(0)]
            if kind == "blocks":
                discharge(rep, "c17_blocks_wholesteps_%d" % i, "beacon is a multiple of max(step,1) (witness: the quotient of the division)",
                          pc + [z3.And([b != w * S for w in W])], tmo, cross, on_sat=on_sat(kind, "wholesteps"))
            else:
                discharge(rep, "c17_tx_wholesteps_%d" % i, "beacon = 0 or beacon+1 is a multiple of S = max(floor(step/15)*15, 15)",
                          pc + [b != 0, z3.And([b + 1 != w * S for w in W])], tmo, cross, on_sat=on_sat(kind, "wholesteps"))
                k = z3.If(step / 15 >= 1, step / 15, 1)
                discharge(rep, "c17_tx_rangeboundary_%d" % i, "tip - security >= S  =>  beacon+1 is a multiple of 15 (complete block range) and beacon >= 14",
                          pc + [tip - sec >= S, z3.Or(z3.And([b + 1 != 15 * (w * k) for w in W]), b < 14)], tmo, cross, on_sat=on_sat(kind, "rangeboundary"))
            for j, o2 in enumerate(R2):
                if o2.kind != "return":
                    continue
                b2 = scalar(o2.value)
                discharge(rep, "c17_%s_monotone_%d_%d" % (kind, i, j), "tip <= tip2 => beacon(tip) <= beacon(tip2)",
                          pc + list(o2.pc) + [tip <= tip2, b > b2], tmo, cross, on_sat=on_sat(kind, "monotone"))
        if n_ret == 0:
            rep.inconcl("no returning path for %s" % kind)
    # ---- time_point_to_signed_entity: pure function of (time point, config); uses the same beacon function -------
    try:
        purity(rep, enc, I, prog, tmo, cross, on_sat)
    except MI.Unencodable as e:
        rep.inconcl("time_point_to_signed_entity unencodable: %s" % e)
    # ---- counterexamples: replay natively ------------------------------------------------------
    k = 0
    for kind, clause, ob, model in failures:
        k += 1
        md = smt.model_to_dict(model)
        t, t2, s, p = (md.get(n, 0) for n in ("tip", "tip2", "security", "step"))
        reproduced = False
        native = {}
        if kind in ("tx", "blocks"):
            try:
                for prof in ("dev", "release"):
                    r = native_beacons([(kind, t, s, p), (kind, t2, s, p)], prof)
                    native[prof] = r
                r = native["dev"]
                S = max(p, 1) if kind == "blocks" else max((p // 15) * 15, 15)
                if clause == "panic":
                    reproduced = r[0] == "panic"
                elif r[0] != "panic":
                    b = int(r[0])
                    if clause == "margin":
                        reproduced = b > max(t - s, 0)
                    elif clause == "monotone":
                        reproduced = r[1] != "panic" and t <= t2 and b > int(r[1])
                    elif clause == "wholesteps":
                        reproduced = (b % S != 0) if kind == "blocks" else (b != 0 and (b + 1) % S != 0)
                    elif clause == "rangeboundary":
                        reproduced = t - s >= S and ((b + 1) % 15 != 0 or b < 14)
            except Exception as e:
                native["error"] = str(e)
        else:
            dname = kind[len("entity-"):]
            try:
                for prof in ("dev", "release"):
                    native[prof] = native_query([entity_line(dname, md)], prof)
                r = native["dev"][0].split()
                ep = int(md.get("tp.epoch.0", 0) or 0)
                if clause == "panic":
                    reproduced = r[0] == "panic"
                elif r[0] in ("panic", "err"):
                    reproduced = False
                elif clause == "epoch" and dname == "CardanoStakeDistribution":
                    reproduced = ep == 0 or int(r[1]) != ep - 1
                elif clause == "epoch":
                    reproduced = int(r[1]) != ep
                elif clause == "beacon":
                    reproduced = [int(r[1]), int(r[2])] != [ep, int(md.get("tp.immutable_file_number", 0) or 0)]
            except Exception as e:
                native["error"] = str(e)
        ob.role = "c17-%s-%s" % (kind, clause)
        path = core.write_replay("C17", k, {"property": "C17", "role": ob.role, "obligation": ob.name, "model": md,
                                            "native_replay": native, "query": "beacon %s tip=%s sec=%s step=%s (tip2=%s)" % (kind, t, s, p, t2)})
        rep.violation(ob.role, "%s: %s fails at tip=%s sec=%s step=%s tip2=%s native=%s" % (kind, clause, t, s, p, t2, native.get("dev")), path, reproduced)


def purity(rep, enc, I, prog, tmo, cross, on_sat):
    f = prog.find_one(r"::time_point_to_signed_entity$")
    db = symval.TypeDB([os.path.join(core.REPO, "mithril-common", "src")])
    I.watch = {enc.f_tx.name, enc.f_bk.name}
    tbl = I.load_enum("SignedEntityTypeDiscriminants") if "SignedEntityTypeDiscriminants" not in I.enum_tables else I.enum_tables["SignedEntityTypeDiscriminants"]
    set_tbl = I.load_enum("SignedEntityType") if "SignedEntityType" not in I.enum_tables else I.enum_tables["SignedEntityType"]
    for dname, didx in sorted(tbl.items(), key=lambda kv: kv[1]):
        sb = symval.SymBuilder(db, I)
        cfg = sb.make("SignedEntityConfig", "cfg")
        tp = sb.make("TimePoint", "tp")
        st = MI.State()
        for c in sb.constraints:
            st.assume(c)
        I.frame_counter += 1
        fr = I.frame_counter
        st.mem[(fr, 1)] = cfg
        st.mem[(fr, 2)] = tp
        outs = I.call_fn(f, [MI.Ref(fr, 1, ()), MI.EnumV("SignedEntityTypeDiscriminants", didx, {}), MI.Ref(fr, 2, ())], st)
        ob = rep.add(core.Obligation("c17_purity_%s" % dname, "smt",
                                     "time_point_to_signed_entity(%s) executes symbolically with no input other than (config, time point): "
                                     "every call resolved to a MIR body or a pure model, no statics read" % dname, {"paths": len(outs)}))
        ob.status = "discharged"
        n_ok = 0
        for i, o in enumerate(outs):
            if o.kind == "exhausted":
                ob.status = "inconclusive"
                rep.inconcl("purity %s: loop bound" % dname)
                continue
            if o.kind == "panic":
                dom = [sb.vars[k] < 2 ** 63 for k in ("cfg.cardano_transactions_signing_config.some.step.0",
                                                      "cfg.cardano_blocks_transactions_signing_config.some.step.0", "tp.epoch.0") if k in sb.vars]
                discharge(rep, "c17_entity_%s_nopanic_%d" % (dname, i), "no reachable panic (%s)" % o.msg[:60], dom + list(o.pc), tmo, cross, on_sat=on_sat("entity-" + dname, "panic"))
                continue
            v = o.value
            if not isinstance(v, MI.EnumV) or v.name != "Result":
                raise MI.Unencodable("unexpected return value %r" % (v,))
            if v.discr != 0:
                continue  # Err(..): refusing is always allowed
            n_ok += 1
            ent = v.payloads[0][0]
            if not isinstance(ent, MI.EnumV) or not isinstance(ent.discr, int):
                raise MI.Unencodable("signed entity with symbolic variant")
            vname = [k for k, x in set_tbl.items() if x == ent.discr][0]
            okname = "c17_entity_%s_variant_%d" % (dname, i)
            ob2 = rep.add(core.Obligation(okname, "smt", "discriminant %s yields entity variant %s" % (dname, vname)))
            ob2.status = "discharged" if vname == dname else "failed"
            if vname != dname:
                rep.violation("c17-entity-variant", "discriminant %s mapped to %s" % (dname, vname), core.write_replay("C17", "entity-%s" % dname, {"property": "C17", "native_replay": "structural"}), True)
            payload = ent.payloads.get(ent.discr, ())
            epoch = sb.vars["tp.epoch.0"]
            if dname in ("CardanoTransactions", "CardanoBlocksTransactions"):
                want = enc.f_tx.name if dname == "CardanoTransactions" else enc.f_bk.name
                evs = [e for e in o.state.trace if e[0] == want]
                tipv = sb.vars["tp.chain_point.block_number.0"]
                good = False
                for (cn, cargs, cres) in evs:
                    cfgv = I.load(o.state, cargs[0]) if isinstance(cargs[0], MI.Ref) else cargs[0]
                    want_cfg = cfg.fields[1 if dname == "CardanoTransactions" else 2].payloads[1][0]
                    same_cfg = all(z3.eq(scalar(a), scalar(b)) for a, b in zip(cfgv.fields, want_cfg.fields))
                    if same_cfg and z3.eq(scalar(cargs[1]), tipv) and z3.eq(scalar(payload[1]), scalar(cres)) and z3.eq(scalar(payload[0]), epoch):
                        good = True
                ob3 = rep.add(core.Obligation("c17_entity_%s_beacon_dataflow_%d" % (dname, i), "smt",
                                              "the entity's beacon is the value returned by %s(config, time_point.chain_point.block_number) and its epoch is time_point.epoch (term identity on the symbolic run)" % want.split("::")[-1]))
                ob3.status = "discharged" if good else "failed"
                if not good:
                    rep.violation("c17-entity-dataflow", "%s: beacon/epoch of the signed entity is not the beacon function's result on (config, tip)" % dname,
                                  core.write_replay("C17", "entity-%s" % dname, {"property": "C17", "trace": str(evs)[:2000], "payload": str(payload)[:500], "native_replay": "structural"}), True)
                if dname == "CardanoBlocksTransactions":
                    secv = cfg.fields[2].payloads[1][0].fields[0]
                    ob4 = rep.add(core.Obligation("c17_entity_%s_offset_%d" % (dname, i), "smt", "third component is the configured security parameter"))
                    ob4.status = "discharged" if z3.eq(scalar(payload[2]), scalar(secv)) else "failed"
                    if ob4.status == "failed":
                        rep.violation("c17-entity-dataflow", "security offset of the entity is not the configured one",
                                      core.write_replay("C17", "entity-offset", {"property": "C17", "native_replay": "structural"}), True)
            elif dname == "CardanoStakeDistribution":
                e_out = scalar(payload[0])
                discharge(rep, "c17_entity_csd_epoch_%d" % i, "CardanoStakeDistribution carries epoch-1 and is refused at epoch 0 (no wrap)",
                          list(o.pc) + [z3.Or(epoch == 0, e_out != epoch - 1)], tmo, cross, on_sat=on_sat("entity-" + dname, "epoch"))
            elif dname == "MithrilStakeDistribution":
                discharge(rep, "c17_entity_msd_epoch_%d" % i, "MithrilStakeDistribution carries the time point's epoch",
                          list(o.pc) + [scalar(payload[0]) != epoch], tmo, cross, on_sat=on_sat("entity-" + dname, "epoch"))
            elif dname == "CardanoDatabase":
                beacon = payload[0]
                ifn = sb.vars["tp.immutable_file_number"]
                vals = [scalar(x) for x in beacon.fields]
                discharge(rep, "c17_entity_cdb_%d" % i, "CardanoDatabase beacon = (time point epoch, time point immutable file number)",
                          list(o.pc) + [z3.Not(z3.And(z3.Or([v == epoch for v in vals]), z3.Or([v == ifn for v in vals])))], tmo, cross, on_sat=on_sat("entity-" + dname, "beacon"))
        if n_ok == 0:
            ob.status = "inconclusive"
            rep.inconcl("purity %s: no Ok path (vacuous)" % dname)
