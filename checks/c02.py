"""C02 — aggregation completeness and monotonicity under extra or repeated signatures (quorum selection).

Engine B: the MIR of ConcatenationClerk::select_valid_signatures_for_k_indices is executed symbolically on lists of
signatures of enumerated shape with symbolic lottery indices, symbolic k and a symbolic validity verdict per distinct
signature content; BTreeMap / HashMap / HashSet are modelled with symbolic keys (mir2smt/container_models.py).
"""
import os
import re
import itertools

import z3

from lib import core, mir, smt
from mir2smt import interp as MI
from mir2smt import models as MM
from mir2smt import container_models as CM
from mir2smt import symval
from mir2smt.interp import Abs, Agg, EnumV, Ref, Opaque, Outcome, Unencodable
from checks.c01 import ABSTRACT, native_stm

SRC = ["mithril-stm/src/proof_system/concatenation/clerk.rs", "mithril-stm/src/protocol/single_signature/signature.rs",
       "mithril-stm/src/protocol/single_signature/signature_registered_party.rs"]


class Ctx:
    def __init__(self, prog):
        self.prog = prog
        self.I = MI.Interp(prog, models=[self.models, CM.map_models, CM.container_models, MM.hof_models, MM.abs_models, MM.core_models], unroll=12, max_paths=200000)
        self.I.enum_tables.update(MM.ENUM_TABLE_EXTRA)
        self.db = symval.TypeDB([os.path.join(core.REPO, "mithril-stm", "src")])
        self.valid_funcs = {}

    def valid(self, sigma, vk, stake, idxs):
        n = len(idxs)
        if n not in self.valid_funcs:
            self.valid_funcs[n] = z3.Function("single_signature_valid_%d" % n, *([z3.IntSort()] * (3 + n) + [z3.BoolSort()]))
        return self.valid_funcs[n](sigma, vk, stake, *idxs)

    def models(self, I, st, caller, func, args, argtys, dest_ty):
        f = MM.strip_std_paths(func)
        if re.search(r"SingleSignatureForConcatenation::verify::<", f):
            sig = MM.deref_all(I, st, args[0])
            vk = MM.deref_all(I, st, args[2])
            stake = MM.deref_all(I, st, args[3])
            sigma, idxs = None, None
            for x in sig.fields:
                if isinstance(x, Abs):
                    sigma = x.term
                elif isinstance(x, Agg) and x.kind == "vec":
                    idxs = list(x.fields)
            ok = self.valid(sigma, vk.term, stake, idxs)
            return MM.ret(st, EnumV("Result", z3.If(ok, 0, 1), {0: (MI.UNIT,), 1: (Opaque("error"),)}))
        if re.match(r"^<(.*BlsSignature) as PartialOrd>::(lt|le|gt|ge)$", f):
            a, b = MM.deref_all(I, st, args[0]), MM.deref_all(I, st, args[1])
            return MM.ret(st, {"lt": a.term < b.term, "le": a.term <= b.term, "gt": a.term > b.term, "ge": a.term >= b.term}[f.split("::")[-1]])
        if re.match(r"^<.* as (Clone|ToOwned)>::(clone|to_owned)$", f):
            return MM.ret(st, MM.deref_all(I, st, args[0]))
        if re.match(r"^Result::<.*>::(is_err|is_ok)$", f):
            v = MM.deref_all(I, st, args[0])
            d = v.discr if z3.is_expr(v.discr) else z3.IntVal(v.discr)
            return MM.ret(st, z3.simplify(d != 0 if f.endswith("is_err") else d == 0))
        if re.match(r"^(core|std)::panicking::", f):
            return MM.panic(st, "panic: " + f[-30:])
        return None

    def make_sig(self, tag, nidx):
        sb = symval.SymBuilder(self.db, self.I, abstract=ABSTRACT, vec_lengths=[(re.escape(tag) + r"\.sig\.concatenation_signature\.indexes", nidx)])
        v = sb.make("SingleSignatureWithRegisteredParty", tag)
        return sb, v

    def run(self, sigs, cons, k):
        f = self.prog.find_one(r"clerk\.rs.*>::select_valid_signatures_for_k_indices$")
        st = MI.State()
        for c in cons:
            st.assume(c)
        fr = self.I.frame_counter + 1
        self.I.frame_counter += 4
        st.mem[(fr, 0)] = Agg("adt", "Parameters", (z3.Int("m"), k, z3.FP("phi_f", z3.Float64())))
        # field order of Parameters from the source
        names = [n for n, t in self.db.struct_fields("Parameters")]
        vals = {"m": z3.Int("m"), "k": k, "phi_f": z3.FP("phi_f", z3.Float64())}
        st.mem[(fr, 0)] = Agg("adt", "Parameters", tuple(vals[n] for n in names))
        st.mem[(fr, 1)] = Abs("bytes", z3.Int("msg"))
        st.mem[(fr, 2)] = Agg("vec", None, tuple(sigs))
        st.mem[(fr, 3)] = Agg("adt", "AggregateVerificationKeyForConcatenation", (Abs("commitment", z3.Int("avk.commitment")), z3.Int("avk.total_stake")))
        return self.I.call_fn(f, [Ref(fr, 0, ()), Ref(fr, 1, ()), Ref(fr, 2, ()), Ref(fr, 3, ())], st)


def sig_parts(v):
    """(sigma term, [index terms], vk term, stake term) of a SingleSignatureWithRegisteredParty value"""
    sig, reg = v.fields
    sigma = idxs = None
    for x in sig.fields:
        if isinstance(x, Agg) and x.kind == "adt":
            for y in x.fields:
                if isinstance(y, Abs):
                    sigma = y.term
                elif isinstance(y, Agg) and y.kind == "vec":
                    idxs = list(y.fields)
    vk = stake = None
    for x in reg.fields:
        if isinstance(x, Abs):
            vk = x.term
        elif z3.is_expr(x):
            stake = x
    return sigma, idxs, vk, stake


def split(outs):
    ok, err, pan, other = [], [], [], []
    for o in outs:
        if o.kind == "panic":
            pan.append(o)
        elif o.kind != "return":
            other.append(o)
        elif o.value.discr == 0:
            ok.append(o)
        else:
            err.append(o)
    return ok, err, pan, other


def copy_of(ctx, v, tag):
    """a second signature value constrained to be equal, field by field, to v"""
    return v


def first_stage(rep, prog, tmo, failures):
    """ConcatenationProof::aggregate_signatures up to the selection: which entries reach select_valid_signatures_for_k_indices and
    whether anything but the selection can make the aggregation fail.  Registry lookup, selection and Merkle path generation are oracles."""
    ctx = Ctx(prog)
    I = ctx.I
    Int, Bool = z3.IntSort(), z3.BoolSort()
    REGISTERED = z3.Function("signer_index_is_registered", Int, Bool)
    REG = z3.Function("registration_entry_at", Int, Int)
    SELOK = z3.Bool("selection_succeeds")
    calls = []

    def models(I, st, caller, func, args, argtys, dest_ty):
        f = MM.strip_std_paths(func)
        if re.search(r"get_registration_entry_for_index$", f):
            idx = MM.deref_all(I, st, args[1])
            return MM.ret(st, EnumV("Result", z3.If(REGISTERED(idx), 0, 1), {0: (Abs("regparty", REG(idx)),), 1: (Opaque("anyhow::Error"),)}))
        if re.search(r"select_valid_signatures_for_k_indices", f):
            lst, _ = CM.seq_of(I, st, args[2])
            st.trace = st.trace + (("select", tuple(lst.fields), None),)
            return MM.ret(st, EnumV("Result", z3.If(SELOK, 0, 1), {0: (Agg("vec", None, tuple(lst.fields)),), 1: (Opaque("AggregationError"),)}))
        if re.search(r"compute_aggregate_verification_key_for_concatenation", f):
            return MM.ret(st, Opaque("avk"))
        if re.search(r"to_merkle_tree(::<|$)|compute_merkle_tree_batch_path", f):
            return MM.ret(st, Opaque("merkle"))
        if re.match(r"^core::slice::<impl \[.*\]>::sort_unstable$", f.replace("std::slice", "core::slice")):
            return MM.ret(st, MI.UNIT)
        if re.search(r"without_snark_fields$", f):
            return MM.ret(st, MM.deref_all(I, st, args[0]))
        if re.search(r"number_of_registered_parties$", f):
            nreg = z3.Int("number_of_registered_parties")
            st.assume(z3.And(nreg >= 1, nreg < 2 ** 32))
            return MM.ret(st, nreg)
        return None
    I.models = [models] + I.models
    f = prog.find_one(r"concatenation/proof\.rs.*>::aggregate_signatures$")
    ss_fields = ctx.db.struct_fields("SingleSignature")
    clerk_fields = ctx.db.struct_fields("ConcatenationClerk")
    for n in (1, 2, 3):
        idxs = [z3.Int("entry_%d.signer_index" % j) for j in range(n)]
        sigs = []
        for j in range(n):
            vals = {"concatenation_signature": Abs("sigcontent", z3.Int("entry_%d.signature" % j)), "signer_index": idxs[j]}
            sigs.append(Agg("adt", "SingleSignature", tuple(vals[nm] for nm, t in ss_fields)))
        st = MI.State()
        for x in idxs:
            st.assume(z3.And(x >= 0, x < 2 ** 64))
        fr = I.frame_counter + 1
        I.frame_counter += 3
        st.mem[(fr, 0)] = Agg("adt", "ConcatenationClerk", tuple(Opaque(t) for nm, t in clerk_fields))
        st.mem[(fr, 1)] = Agg("vec", None, tuple(sigs))
        st.mem[(fr, 2)] = Abs("bytes", z3.Int("msg"))
        outs = I.call_fn(f, [Ref(fr, 0, ()), Ref(fr, 1, ()), Ref(fr, 2, ())], st)
        bad_fail, bad_list = [], []
        for o in outs:
            if o.kind != "return":
                raise Unencodable("aggregate_signatures: %s %s" % (o.kind, o.msg))
            sel = [e for e in o.state.trace if e[0] == "select"]
            d = o.value.discr
            is_err = (d != 0) if z3.is_expr(d) else z3.BoolVal(d != 0)
            if not sel:
                # the aggregation ended before the selection was asked
                bad_fail.append(z3.And(list(o.pc)))
                continue
            # the list handed to the selection: the registered entries, each with its own registration entry, in input order
            lst = sel[0][1]
            want = z3.BoolVal(True)
            # build the expected list symbolically: position-wise comparison under the registration pattern of this path
            got = []
            for e in lst:
                ev = MM.deref_all(I, o.state, e)
                sg, rp = ev.fields[0], ev.fields[1]
                got.append((sg.fields[[nm for nm, t in ss_fields].index("signer_index")], rp.term if isinstance(rp, Abs) else None))
            reg_pattern = [REGISTERED(x) for x in idxs]
            # number of entries = number of registered inputs, and the j-th kept entry is the j-th registered input with REG(its index)
            count = z3.Sum([z3.If(rg, 1, 0) for rg in reg_pattern])
            cond = [count == len(got)]
            for pos, (gi, gr) in enumerate(got):
                alts = []
                for j in range(n):
                    before = z3.Sum([z3.If(reg_pattern[t], 1, 0) for t in range(j)]) if j else z3.IntVal(0)
                    alts.append(z3.And(reg_pattern[j], before == pos, gi == idxs[j], (gr == REG(idxs[j])) if gr is not None else z3.BoolVal(False)))
                cond.append(z3.Or(alts))
            bad_list.append(z3.And(list(o.pc) + [z3.Not(z3.And(cond))]))
            bad_fail.append(z3.And(list(o.pc) + [is_err, SELOK]))
        ob = rep.add(core.Obligation("c02_aggregate_fails_only_through_selection_n%d" % n, "smt",
                                     "%d entries with arbitrary signer indices: ConcatenationProof::aggregate_signatures fails only if the selection fails — an entry naming an unregistered signer index (junk) does not abort the aggregation" % n,
                                     {"paths": len(outs)}))
        r = smt.check([z3.Or(bad_fail)] if bad_fail else [z3.BoolVal(False)], timeout_s=tmo)
        ob.solver_s = r.seconds
        ob.status = "discharged" if r.status == "unsat" else "failed" if r.status == "sat" else "inconclusive"
        if r.status == "sat":
            ob.counterexample = {"signer_indices": [r.model.eval(x, model_completion=True).as_long() for x in idxs],
                                 "registered": [str(r.model.eval(REGISTERED(x), model_completion=True)) for x in idxs]}
            failures.append(("aggregation-aborted-by-unregistered-signer-index", (n,), ob, r.model))
        elif r.status != "unsat":
            rep.inconcl("%s: %s" % (ob.name, r.reason))
        ob = rep.add(core.Obligation("c02_selection_sees_every_registered_entry_n%d" % n, "smt",
                                     "%d entries: the list handed to the selection is exactly the entries whose signer index is registered, each paired with the registration entry of its own index, in input order (nothing dropped, nothing mispaired)" % n))
        r = smt.check([z3.Or(bad_list)] if bad_list else [z3.BoolVal(False)], timeout_s=tmo)
        ob.solver_s = r.seconds
        ob.status = "discharged" if r.status == "unsat" else "failed" if r.status == "sat" else "inconclusive"
        if r.status == "sat":
            ob.counterexample = {"signer_indices": [r.model.eval(x, model_completion=True).as_long() for x in idxs],
                                 "registered": [str(r.model.eval(REGISTERED(x), model_completion=True)) for x in idxs]}
            failures.append(("selection-input-incomplete", (n,), ob, r.model))
        elif r.status != "unsat":
            rep.inconcl("%s: %s" % (ob.name, r.reason))
    rep.functions += sorted("%s -> %s" % (a, b) for a, b in I.calls_seen.items() if b.startswith("mir:"))


def run(tier, seed):
    rep = core.Report("C02", tier, seed)
    rep.trusted_base = ["rustc nightly MIR", "mir2smt interpreter + container/map models with symbolic keys", "z3"]
    rep.functions = ["source hashes: %s" % core.source_hashes(SRC)]
    rep.assumptions = [
        "SingleSignatureForConcatenation::verify = deterministic oracle of the signature's content (sigma, key, stake, claimed indices): equal copies get equal verdicts",
        "BlsSignature ordering = a total order on signature identities; Hash consistent with Eq (std contract); BTreeMap iterates in key order",
        "HashSet::into_iter order is arbitrary (the caller sorts): the returned set is compared as a set",
        "list shape (number of signatures, indices per signature) is enumerated; index values, k, keys, stakes and verdicts are symbolic",
        "k >= 1 (with k = 0 and no valid signature the selection loop never runs and reports NotEnoughSignatures(0, 0); k = 0 is not a protocol parameter)",
    ]
    rep.outside = ["Signer::create_single_signature producing verifiable signatures (BLS + Blake2b lottery): covered natively only by the replay scenario",
                   "that the aggregate built from the selection verifies (C01 + C09)", "the aggregator's NotEnoughSignatures mapping (async service)",
                   "lists longer than 3 signatures / more than 2 indices per signature"]
    rep.solver_vars = ["every lottery index (u64)", "k (u64)", "validity verdict of every distinct signature content", "identities and order of the sigmas, keys, stakes",
                       "content of the extra entry in the monotonicity runs (arbitrary, possibly invalid, possibly equal to an existing entry)"]
    try:
        path, dt = mir.dump("mithril-stm")
    except Exception as e:
        rep.inconcl("MIR dump failed: %s" % e)
        return rep.finish()
    prog = MI.Program(open(path).read(), source_root=os.path.join(core.REPO, "mithril-stm"))
    shapes = [(1,), (2,), (1, 1), (2, 1)] if tier == "quick" else [(1,), (2,), (1, 1), (2, 1), (1, 1, 1)]
    mono = [((1,), 1), ((2,), 2), ((1, 1), 1)] if tier == "quick" else [((1,), 1), ((2,), 2), ((1, 1), 1), ((2, 1), 1), ((1, 1), 2)]
    rep.enumerated = ["list shapes (indices per signature): %s" % (shapes,), "monotonicity: base shape + one extra entry with n indices, inserted at every position: %s" % (mono,)]
    rep.bounds = {"max_signatures": 3, "max_indices_per_signature": 2, "loop_unroll": 12}
    tmo = 120 if tier == "quick" else 600
    failures = []
    k = z3.Int("k")
    U64 = 2 ** 64
    try:
        for shape in shapes:
            ctx = Ctx(prog)
            sigs, cons = [], [k >= 1, k < U64]
            parts = []
            for i, n in enumerate(shape):
                sb, v = ctx.make_sig("s%d" % i, n)
                sigs.append(v)
                cons += sb.constraints
                parts.append(sig_parts(v))
            outs = ctx.run(sigs, cons, k)
            ok, err, pan, other = split(outs)
            sname = "x".join(map(str, shape))
            for o in other:
                rep.inconcl("shape %s: %s %s" % (shape, o.kind, o.msg))
            rep.notes.append("shape %s: %d paths (%d Ok, %d Err, %d panic)" % (shape, len(outs), len(ok), len(err), len(pan)))
            valid = [ctx.valid(p[0], p[2], p[3], p[1]) for p in parts]
            # distinct index values covered by valid signatures
            vidx = [(x, valid[i]) for i, p in enumerate(parts) for x in p[1]]
            covered = z3.IntVal(0)
            for j, (x, vj) in enumerate(vidx):
                first = z3.And([z3.Or(z3.Not(vy), y != x) for (y, vy) in vidx[:j]]) if j else z3.BoolVal(True)
                covered = covered + z3.If(z3.And(vj, first), 1, 0)
            # (A) completeness
            ob = rep.add(core.Obligation("c02_complete_%s" % sname, "smt", "shape %s: valid signatures cover >= k distinct indices => selection succeeds" % (shape,), {"vccs": len(err)}))
            r = smt.check([z3.Or([z3.And(list(o.pc)) for o in err]) if err else z3.BoolVal(False), covered >= k], timeout_s=tmo)
            ob.solver_s = r.seconds
            if r.status == "unsat":
                ob.status = "discharged"
            elif r.status == "sat":
                ob.status = "failed"
                ob.counterexample = {a: b for a, b in smt.model_to_dict(r.model).items() if "indexes" in a or a == "k"}
                failures.append(("completeness", shape, ob, r.model))
            else:
                ob.status = "inconclusive"
                rep.inconcl("%s: %s" % (ob.name, r.reason))
            # (C) no panic
            ob = rep.add(core.Obligation("c02_nopanic_%s" % sname, "smt", "shape %s: the 'invariant violation' panic is unreachable" % (shape,), {"vccs": len(pan)}))
            r = smt.check([z3.Or([z3.And(list(o.pc)) for o in pan]) if pan else z3.BoolVal(False)], timeout_s=tmo)
            ob.solver_s = r.seconds
            ob.status = "discharged" if r.status == "unsat" else "failed" if r.status == "sat" else "inconclusive"
            if r.status == "sat":
                failures.append(("panic", shape, ob, r.model))
            # (D) soundness of the selection: returned indices pairwise distinct, count >= k, each from a valid input with that sigma
            bad = []
            for o in ok:
                res = o.value.payloads[0][0]
                rparts = [sig_parts(MM.deref_all(ctx.I, o.state, x)) for x in res.fields]
                ridx = [x for p in rparts for x in p[1]]
                cl = [z3.IntVal(len(ridx)) >= k]
                if len(ridx) > 1:
                    cl.append(z3.Distinct(ridx))
                for p in rparts:
                    for x in p[1]:
                        cl.append(z3.Or([z3.And(valid[i], q[0] == p[0], z3.Or([y == x for y in q[1]])) for i, q in enumerate(parts)]))
                bad.append(z3.And(list(o.pc) + [z3.Not(z3.And(cl))]))
            ob = rep.add(core.Obligation("c02_selection_sound_%s" % sname, "smt", "shape %s: Ok => returned indices pairwise distinct, at least k, each claimed by a valid input signature with the same sigma" % (shape,), {"vccs": len(ok)}))
            r = smt.check([z3.Or(bad)] if bad else [z3.BoolVal(False)], timeout_s=tmo)
            ob.solver_s = r.seconds
            ob.status = "discharged" if r.status == "unsat" else "failed" if r.status == "sat" else "inconclusive"
            if r.status == "sat":
                failures.append(("selection_sound", shape, ob, r.model))
            ob = rep.add(core.Obligation("c02_witness_%s" % sname, "smt", "witness: some list of shape %s aggregates" % (shape,)))
            r = smt.check([z3.Or([z3.And(list(o.pc)) for o in ok])] if ok else [z3.BoolVal(False)], timeout_s=tmo)
            ob.status = "discharged" if r.status == "sat" else "inconclusive"
            if r.status != "sat":
                rep.inconcl("no successful selection for shape %s" % (shape,))
        # (B) monotonicity: Ok(L) => Ok(L + extra) for an arbitrary extra entry at any position
        for shape, nextra in mono:
            ctx = Ctx(prog)
            sigs, cons = [], [k >= 1, k < U64]
            for i, n in enumerate(shape):
                sb, v = ctx.make_sig("s%d" % i, n)
                sigs.append(v)
                cons += sb.constraints
            sbx, extra = ctx.make_sig("extra", nextra)
            base_outs = ctx.run(sigs, cons, k)
            okb, _, _, _ = split(base_outs)
            ok_base = z3.Or([z3.And(list(o.pc)) for o in okb]) if okb else z3.BoolVal(False)
            for pos in range(len(shape) + 1):
                l2 = sigs[:pos] + [extra] + sigs[pos:]
                outs2 = ctx.run(l2, cons + sbx.constraints, k)
                ok2, err2, pan2, oth2 = split(outs2)
                for o in oth2:
                    rep.inconcl("mono %s+%d@%d: %s %s" % (shape, nextra, pos, o.kind, o.msg))
                name = "c02_monotone_%s_plus%d_at%d" % ("x".join(map(str, shape)), nextra, pos)
                ob = rep.add(core.Obligation(name, "smt", "aggregation of %s succeeds => it still succeeds with one more entry (%d indices, arbitrary content: copy, invalid, other) at position %d" % (shape, nextra, pos),
                                             {"vccs": len(err2) + len(pan2)}))
                fail2 = z3.Or([z3.And(list(o.pc)) for o in err2 + pan2]) if (err2 or pan2) else z3.BoolVal(False)
                r = smt.check([ok_base, fail2], timeout_s=tmo)
                ob.solver_s = r.seconds
                if r.status == "unsat":
                    ob.status = "discharged"
                elif r.status == "sat":
                    ob.status = "failed"
                    md = smt.model_to_dict(r.model)
                    ob.counterexample = {a: b for a, b in md.items() if "indexes" in a or a == "k" or a.endswith(".sigma")}
                    # is the extra entry a copy of an existing one?
                    ps = [sig_parts(v) for v in sigs]
                    pe = sig_parts(extra)
                    iscopy = any(z3.is_true(r.model.eval(z3.And(pe[0] == p[0], pe[2] == p[2], pe[3] == p[3], z3.And([a == b for a, b in zip(pe[1], p[1])]) if len(pe[1]) == len(p[1]) else z3.BoolVal(False)), model_completion=True)) for p in ps)
                    samesigma = any(z3.is_true(r.model.eval(pe[0] == p[0], model_completion=True)) for p in ps)
                    failures.append(("monotone-duplicate" if iscopy else "monotone-same-sigma" if samesigma else "monotone-extra", (shape, nextra, pos), ob, r.model))
                else:
                    ob.status = "inconclusive"
                    rep.inconcl("%s: %s" % (name, r.reason))
        rep.functions += sorted("%s -> %s" % (a, b) for a, b in ctx.I.calls_seen.items())
    except Unencodable as e:
        rep.inconcl("unencodable: %s" % e)
    try:
        first_stage(rep, prog, tmo, failures)
    except Unencodable as e:
        rep.inconcl("unencodable (aggregate_signatures): %s" % e)
    # ---- replay ---------------------------------------------------------------------------------------------------------
    seen = {}
    kk = 0
    for name, shape, ob, model in failures:
        role = "c02-" + name
        ob.role = role
        if role in seen:
            continue
        kk += 1
        native = {}
        reproduced = False
        try:
            native["duplicate"] = native_stm("duplicate")
            native["clerk_battery"] = native_stm("clerk_battery")
            mm = re.match(r"\[A\]=(\S+) \[A,A\]=(\S+)", native["duplicate"])
            reproduced = (bool(mm) and mm.group(1) == "accepted" and mm.group(2) != "accepted") or "VIOLATED" in native["clerk_battery"]
        except Exception as e:
            native["error"] = str(e)
        path = core.write_replay("C02", kk, {"property": "C02", "role": role, "obligation": ob.name, "shape": shape, "counterexample": ob.counterexample, "native_replay": native})
        seen[role] = path
        rep.violation(role, "%s %s: %s; native %s" % (name, shape, ob.counterexample, native), path, reproduced)
        if reproduced:
            rep.traces_validated += 1
    return rep.finish()
