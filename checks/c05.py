"""C05 — decoding untrusted bytes never crashes the process (legacy fixed-layout decoders of mithril-stm).

Engine B: the MIR of every legacy decoder is executed symbolically on a buffer of symbolic length and content
(mir2smt/bytes_models.py).  Lengths, offsets and length prefixes are full-width integers; an overflow check, an
out-of-range slice, a failed copy, an unwrap on None/Err is a reachable-panic outcome; Vec::with_capacity requests are
recorded and compared with the input length; loops over untrusted counts are unrolled K times with an
input-proportionality obligation on the residual.
"""
import os
import re
import subprocess

import z3

from lib import core, mir, smt
from mir2smt import interp as MI
from mir2smt import models as MM
from mir2smt import container_models as CM
from mir2smt import num_models as NM
from mir2smt import bytes_models as BM
from mir2smt.interp import Abs, Agg, EnumV, Ref, Opaque, Outcome, Unencodable

SRC = ["mithril-stm/src/codec.rs", "mithril-stm/src/proof_system/concatenation/proof.rs", "mithril-stm/src/protocol/aggregate_signature/signature.rs",
       "mithril-stm/src/protocol/single_signature/signature.rs", "mithril-stm/src/protocol/single_signature/signature_registered_party.rs",
       "mithril-stm/src/protocol/key_registration/closed_registration_entry.rs", "mithril-stm/src/membership_commitment/merkle_tree/path.rs",
       "mithril-stm/src/membership_commitment/merkle_tree/commitment.rs", "mithril-stm/src/membership_commitment/merkle_tree/tree.rs",
       "mithril-stm/src/protocol/participant/initializer.rs", "mithril-stm/src/protocol/parameters.rs"]

# (name, regex on the MIR function name, native query name)
DECODERS = [
    ("aggregate_signature", r"aggregate_signature/signature\.rs.*>::from_bytes$", "aggregate_signature"),
    ("concatenation_proof", r"concatenation/proof\.rs.*>::from_bytes$", None),
    ("single_signature_with_registered_party", r"signature_registered_party\.rs.*>::from_bytes$", "single_signature_with_registered_party"),
    ("single_signature", r"single_signature/signature\.rs.*>::from_bytes$", "single_signature"),
    ("closed_registration_entry", r"closed_registration_entry\.rs.*>::from_bytes$", None),
    ("merkle_batch_path", r"merkle_tree/path\.rs.*>::from_bytes$", None),
    ("merkle_tree_batch_commitment", r"merkle_tree/commitment\.rs.*>::from_bytes$", None),
    ("initializer", r"participant/initializer\.rs.*>::from_bytes$", "initializer"),
    ("parameters", r"protocol/parameters\.rs.*>::from_bytes$", "parameters"),
    ("aggregate_verification_key", r"concatenation/aggregate_key\.rs.*>::from_bytes$", "aggregate_verification_key"),
]


def c05_models(I, st, caller, func, args, argtys, dest_ty):
    f = MM.strip_std_paths(func)
    if re.search(r"codec::from_cbor_bytes::<", f) or re.match(r"^from_cbor_bytes::<", f):
        st.trace = st.trace + (("cbor", None, None),)
        return MM.ret(st, EnumV("Result", 1, {1: (Opaque("cbor outside the claim"),)}))
    if re.match(r"^<.* as Digest>::output_size$", f) or re.match(r"^<.* as OutputSizeUser>::output_size$", f):
        return MM.ret(st, z3.IntVal(32))
    # curve point / scalar decoding of third-party crates: arbitrary verdict, arbitrary value
    if re.match(r"^(blst::|<blst::|min_sig::|blst::min_sig::)", f) or re.search(r"(^|::)(Signature|PublicKey|SecretKey)::(sig_validate|key_validate|uncompress|from_bytes|deserialize|validate)$", f):
        I.fresh_counter += 1
        d = z3.Int("blst_ok!%d" % I.fresh_counter)
        st.assume(z3.Or(d == 0, d == 1))
        for a_ in args:
            sl_ = BM.as_slice(I, st, a_) if not isinstance(a_, (bool, int)) else None
            if sl_ is not None:
                st.trace = st.trace + (("point_decode", sl_.off, (sl_.length, d)),)
                break
        return MM.ret(st, EnumV("Result", d, {0: (Abs("point", z3.Int("blst_point!%d" % I.fresh_counter)),), 1: (Opaque("BLST_ERROR"),)}))
    if re.match(r"^blst_p1_uncompress$", f):
        for a_ in args:
            if isinstance(a_, Opaque) and isinstance(a_.payload, BM.SymSlice):
                st.trace = st.trace + (("point_decode", a_.payload.off, (a_.payload.length, z3.IntVal(0))),)
    if re.match(r"^blst_[a-z0-9_]+$", f):
        # FFI into blst on a pointer into the buffer: memory safety of the C side is outside; the Rust side's length guard is on the path condition
        st.trace = st.trace + (("ffi", f, None),)
        return MM.ret(st, Opaque("blst FFI result"))
    if re.search(r"blst_error_to_stm_error$", f):
        return MM.ret(st, EnumV("Result", 1, {1: (Opaque("anyhow::Error"),)}))
    if re.match(r"^core::num::<impl usize>::next_power_of_two$", f):
        n = args[0]
        # smallest power of two >= n; panics in debug when it does not fit
        I.fresh_counter += 1
        p = z3.Int("npow2!%d" % I.fresh_counter)
        outs = []
        big = z3.simplify(n > 2 ** 63)
        if I.feasible(st, big):
            s2 = st.fork()
            s2.assume(big)
            outs.append(Outcome("panic", None, s2, "next_power_of_two overflow"))
        s3 = st.fork()
        s3.assume(z3.And(n <= 2 ** 63, p >= n, p >= 1, p < 2 * n + 2, p <= 2 ** 63))
        outs.append(Outcome("return", p, s3))
        return outs
    if re.match(r"^<.* as (Clone|ToOwned)>::(clone|to_owned)$", f):
        return MM.ret(st, MM.deref_all(I, st, args[0]))
    if re.match(r"^<.* as Default>::default$", f) or "PhantomData" in f:
        return MM.ret(st, Opaque("default"))
    if re.match(r"^(std::boxed::)?Box::<.*>::new$", f):
        return MM.ret(st, Agg("box", None, (args[0],)))
    return None


def native_decode(rows, profile="dev"):
    """rows: [(decoder name, hex bytes)] -> result lines (one process per row: an abort must not hide the others)"""
    cdir = os.path.join(core.REPLAY_CRATES, "stm")
    import shutil
    shutil.copyfile(os.path.join(core.REPO, "Cargo.lock"), os.path.join(cdir, "Cargo.lock"))
    env = dict(os.environ)
    env["CARGO_NET_OFFLINE"] = "true"
    tdir = os.path.join(core.CACHE, "replay-target")
    b = subprocess.run(["cargo", "build", "--offline", "-q", "--target-dir", tdir] + (["--release"] if profile == "release" else []),
                       cwd=cdir, env=env, stdout=subprocess.PIPE, stderr=subprocess.PIPE, text=True, timeout=2400)
    if b.returncode != 0:
        raise RuntimeError("native stm replay build failed: " + b.stderr[-400:])
    exe = os.path.join(tdir, "release" if profile == "release" else "debug", "verif-replay-stm")
    out = []
    for name, hx in rows:
        p = subprocess.run([exe, "decode", name, hx], stdout=subprocess.PIPE, stderr=subprocess.PIPE, text=True, timeout=120)
        line = (p.stdout.strip().split("\n") or [""])[-1]
        if p.returncode != 0 and not line.startswith(("ok", "err", "panic")):
            mm = re.search(r"memory allocation of (\d+) bytes failed", p.stderr)
            line = "aborted rc=%d %s" % (p.returncode, ("allocation request of %s bytes refused (> 1 GiB) for a %d-byte input" % (mm.group(1), len(hx) // 2)) if mm else (p.stderr.strip().split("\n") or [""])[0][:160])
        out.append(line)
    return out


_SAMPLES = {}


def SAMPLE_POINTS():
    """honest curve points by encoded length (96: verification key, 48: signature), from the native binary"""
    if not _SAMPLES:
        try:
            exe = os.path.join(core.CACHE, "replay-target", "debug", "verif-replay-stm")
            out = subprocess.run([exe, "sample_points"], stdout=subprocess.PIPE, stderr=subprocess.PIPE, text=True, timeout=120).stdout.strip().split()
            for hx in out:
                b = bytes.fromhex(hx)
                _SAMPLES[len(b)] = b
        except Exception:
            _SAMPLES[0] = b""
    return _SAMPLES


def buffer_from_model(model, st, length_term, cap=4096):
    n = model.eval(length_term, model_completion=True).as_long()
    n = min(n, cap)
    buf = bytearray(n)
    for ev in st.trace:
        if ev[0] == "read_u64":
            off = model.eval(ev[1], model_completion=True).as_long()
            val = model.eval(ev[2], model_completion=True).as_long()
            if 0 <= off and off + 8 <= n:
                buf[off:off + 8] = val.to_bytes(8, "big")
        elif ev[0] == "read_byte":
            off = model.eval(ev[1], model_completion=True).as_long()
            val = model.eval(ev[2], model_completion=True).as_long()
            if 0 <= off < n:
                buf[off] = val % 256
    # where the path needs a curve point to decode successfully, put honest key / signature bytes there
    for ev in st.trace:
        if ev[0] == "point_decode":
            off = model.eval(ev[1], model_completion=True).as_long()
            ln = model.eval(ev[2][0], model_completion=True).as_long() if z3.is_expr(ev[2][0]) else int(ev[2][0])
            okv = model.eval(ev[2][1], model_completion=True).as_long()
            if okv == 0 and ln in SAMPLE_POINTS() and 0 <= off and off + ln <= n:
                buf[off:off + ln] = SAMPLE_POINTS()[ln]
    return bytes(buf)


def run(tier, seed):
    rep = core.Report("C05", tier, seed)
    rep.trusted_base = ["rustc nightly MIR", "mir2smt interpreter + byte-slice / container / closure call models", "z3"]
    rep.functions = ["source hashes: %s" % core.source_hashes(SRC)]
    K = 3 if tier == "quick" else 4
    rep.bounds = {"loop_unroll_K": K, "input_length": "0 <= len < 2^63 (symbolic)", "usize": "64 bit"}
    rep.assumptions = [
        "buffer content = uninterpreted function of (buffer, offset): every content, every length; reads of the same bytes agree",
        "overflow-checks=on semantics (dev / ci-tests profile): an arithmetic overflow is a panic; the native replay reports dev and release",
        "CBOR decoding (codec::from_cbor_bytes, ciborium) is cut: it returns Err and the legacy decoder, where the code falls back to it, is taken",
        "curve point / scalar decoding inside blst and the schnorr crates returns an arbitrary verdict",
        "Digest::output_size() = 32 (Blake2b-256, the deployed MithrilMembershipDigest)",
        "allocation proportionality: a Vec::with_capacity(n) request must satisfy n <= input length (every element needs at least one input byte)",
    ]
    rep.notes.append("MerkleTree::from_bytes (crate-private type, not reachable from data supplied by another node) is not claimed; it computes n + n.next_power_of_two() - 1 and Vec::with_capacity(num_nodes) from the first 8 bytes")
    rep.outside = ["ciborium / serde_json / bincode parsers (third-party recursive-descent parsers with data-dependent loops)", "hex and JSON layers of ProtocolKey (mithril-common)",
                   "round trip encode/decode (today's encoders only emit CBOR)", "internal/mithril-merkle-tree MKProof / MKMapProof (bincode)",
                   "more than K elements per untrusted count (residual paths are only shown to be input-proportional)"]
    rep.solver_vars = ["input length (usize)", "every length prefix / count / index read from the buffer (u64)", "the first byte (CBOR version switch)", "point-decoding verdicts"]
    try:
        path, dt = mir.dump("mithril-stm")
    except Exception as e:
        rep.inconcl("MIR dump failed: %s" % e)
        return rep.finish()
    prog = MI.Program(open(path).read(), source_root=os.path.join(core.REPO, "mithril-stm"))
    tmo = 60
    failures = []
    for dname, rx, native_name in DECODERS:
        cands = [f for f in prog.find(rx) if len(f.params) == 1]
        if len(cands) != 1:
            rep.notes.append("decoder %s: %d candidates in the dump (skipped)" % (dname, len(cands)))
            continue
        f = cands[0]
        I = MI.Interp(prog, models=[c05_models, BM.bytes_models, CM.map_models, CM.container_models, NM.num_models, MM.hof_models, MM.abs_models, MM.core_models], unroll=K, max_paths=60000)
        I.enum_tables.update(MM.ENUM_TABLE_EXTRA)
        L = z3.Int("len")
        st = MI.State()
        st.assume(z3.And(L >= 0, L < 2 ** 63))
        buf = BM.SymSlice(1, z3.IntVal(0), L)
        try:
            outs = I.call_fn(f, [buf], st)
        except Unencodable as e:
            rep.inconcl("decoder %s unencodable: %s" % (dname, e))
            continue
        pan = [o for o in outs if o.kind == "panic"]
        exh = [o for o in outs if o.kind == "exhausted"]
        rets = [o for o in outs if o.kind == "return"]
        rep.notes.append("%s: %d paths (%d return, %d panic, %d residual)" % (dname, len(outs), len(rets), len(pan), len(exh)))
        # 1. no panic
        ob = rep.add(core.Obligation("c05_%s_nopanic" % dname, "smt", "%s::from_bytes: no input makes it panic (overflow, out-of-range slice, length mismatch, unwrap)" % dname,
                                     {"vccs": len(pan), "paths": len(outs), "K": K}))
        hit = None
        for o in pan:
            r = smt.check(list(o.pc) + [L <= 512], timeout_s=tmo)
            ob.solver_s += r.seconds
            if r.status == "sat":
                hit = (o, r.model)
                break
            if r.status == "unknown":
                r2 = smt.check(list(o.pc), timeout_s=tmo)
                if r2.status == "sat":
                    hit = (o, r2.model)
                    break
        if hit:
            o, model = hit
            ob.status = "failed"
            data = buffer_from_model(model, o.state, L)
            ob.counterexample = {"panic": o.msg[:140], "input_len": model.eval(L, model_completion=True).as_long(), "input_hex": data.hex()[:400]}
            failures.append((dname, "panic", ob, data, native_name, o.msg))
        else:
            ob.status = "discharged"
        # 2. allocation proportional to the input
        allocs = []
        for o in outs:
            for ev in o.state.trace:
                if ev[0] == "Vec::with_capacity":
                    allocs.append((o, ev[1][0]))
        ob = rep.add(core.Obligation("c05_%s_allocation" % dname, "smt", "%s::from_bytes: every Vec::with_capacity(n) request has n <= input length" % dname, {"vccs": len(allocs)}))
        hit = None
        for o, n in allocs:
            r = smt.check(list(o.pc) + [n > L, L <= 512], timeout_s=tmo)
            ob.solver_s += r.seconds
            if r.status == "sat":
                hit = (o, r.model, n)
                break
        if hit:
            o, model, n = hit
            ob.status = "failed"
            # prefer a large request for the replay
            r = smt.check(list(o.pc) + [n >= 2 ** 40, n < 2 ** 60, L <= 64], timeout_s=tmo)
            if r.status == "sat":
                model = r.model
            data = buffer_from_model(model, o.state, L)
            ob.counterexample = {"requested_elements": model.eval(n, model_completion=True).as_long(), "input_len": len(data), "input_hex": data.hex()[:400]}
            failures.append((dname, "allocation", ob, data, native_name, "with_capacity"))
        else:
            ob.status = "discharged"
        # 3. loops over untrusted counts are input-bounded: still running after K iterations => the input has at least K bytes
        ob = rep.add(core.Obligation("c05_%s_loops_input_bounded" % dname, "smt", "%s::from_bytes: a loop still running after K=%d iterations has consumed at least K input bytes (no unbounded loop on a short input)" % (dname, K),
                                     {"vccs": len(exh)}))
        bad = None
        for o in exh:
            r = smt.check(list(o.pc) + [L < K - 1], timeout_s=tmo)
            ob.solver_s += r.seconds
            if r.status == "sat":
                bad = (o, r.model)
                break
        if bad:
            o, model = bad
            ob.status = "failed"
            data = buffer_from_model(model, o.state, L)
            ob.counterexample = {"input_len": len(data), "input_hex": data.hex()[:200], "loop": o.msg[:120]}
            failures.append((dname, "unbounded_loop", ob, data, native_name, o.msg))
        else:
            ob.status = "discharged"
        if not rets:
            rep.inconcl("%s: no returning path (vacuous)" % dname)
        rep.functions += sorted(set("%s -> %s" % (a, b) for a, b in I.calls_seen.items() if b.startswith("mir:")))[:40]
    # ---- replay ---------------------------------------------------------------------------------------------------------
    k = 0
    for dname, clause, ob, data, native_name, msg in failures:
        k += 1
        site = re.sub(r"[^a-z_]+", "-", re.sub(r".*in ", "", msg).split("::")[-1].lower())[:40] if clause == "panic" else clause
        kind = "overflow" if "overflow" in msg else "slice" if "slice" in msg or "index" in msg else "other"
        role = "c05-%s-%s-%s" % (dname, clause, kind if clause == "panic" else "request")
        ob.role = role
        native = {}
        reproduced = False
        try:
            # replay through the decoder itself when it is public, else through the public decoder that wraps it
            wrappers = {"concatenation_proof": ("aggregate_signature", b"\x00"), "closed_registration_entry": None, "merkle_batch_path": None,
                        "merkle_tree_batch_commitment": None, "merkle_tree": None, "aggregate_verification_key": None}
            nn, payload = native_name, data
            if nn is None and wrappers.get(dname):
                nn, prefix = wrappers[dname]
                payload = prefix + data
            if nn:
                for prof in ("dev", "release"):
                    native[prof] = native_decode([(nn, payload.hex())], prof)[0]
                d = native["dev"]
                if clause == "panic":
                    reproduced = d.startswith("panic") or d.startswith("aborted")
                elif clause == "allocation":
                    reproduced = d.startswith("panic") or d.startswith("aborted") or "max_alloc" in d and int(re.search(r"max_alloc=(\d+)", d).group(1)) > 64 * max(len(payload), 1) + 4096
            else:
                native["note"] = "decoder is crate-private and has no public wrapper in the replay binary"
        except Exception as e:
            native["error"] = str(e)
        path = core.write_replay("C05", k, {"property": "C05", "role": role, "obligation": ob.name, "decoder": dname, "clause": clause, "counterexample": ob.counterexample,
                                            "native_replay": native})
        rep.violation(role, "%s %s: %s; native %s" % (dname, clause, str(ob.counterexample)[:200], native), path, reproduced)
        if reproduced:
            rep.traces_validated += 1
    return rep.finish()
