"""C08 — the signing lottery is exact, deterministic and monotone.

Engine B: MIR of `taylor_comparison` / `is_lottery_won` (num-integer backend) from mithril-stm, executed symbolically
with Ratio<BigInt> = z3 Real (exact), loop unrolled B times, e^x replaced by a fresh real enclosed by the
degree-N Taylor enclosure (trusted lemma: for 0 <= x < N+2,  S_N + t_{N+1} <= e^x <= S_N + t_{N+1}(N+2)/(N+2-x)).
"""
import math
import os
import re
import struct
import subprocess
from fractions import Fraction

import z3

from lib import core, mir, smt
from mir2smt import interp as MI
from mir2smt import models as MM
from mir2smt import num_models as NM
from mir2smt import parser as P

SRC = ["mithril-stm/src/proof_system/concatenation/eligibility.rs", "mithril-stm/src/proof_system/concatenation/single_signature.rs",
       "mithril-stm/src/proof_system/concatenation/signer.rs"]
X_MUST = Fraction(5, 2)  # region where "decided => correct" must hold
X_KNOWN_HI = Fraction(8)


def fact(n):
    return math.factorial(n)


def exp_enclosure(x, E, N):
    """constraints tying the fresh real E to e^x for 0 <= x < N+2"""
    S = z3.RealVal(0)
    xp = z3.RealVal(1)
    for i in range(N + 1):
        S = S + xp / fact(i)
        xp = xp * x
    t = xp / fact(N + 1)  # x^(N+1)/(N+1)!
    return [E >= S + t, E * (N + 2 - x) <= (S * (N + 2 - x) + t * (N + 2)), E >= 1]


def exact_exp_bounds(x, N=60):
    """rational enclosure of e^x for a Fraction x in [0, 20) (same lemma, exact arithmetic) for the native replay"""
    S = Fraction(0)
    xp = Fraction(1)
    for i in range(N + 1):
        S += xp / fact(i)
        xp *= x
    t = xp / fact(N + 1)
    return S + t, S + t * Fraction(N + 2) / (Fraction(N + 2) - x)


def f64_bits(v):
    return "%016x" % struct.unpack(">Q", struct.pack(">d", v))[0]


def native_lottery(rows):
    """rows: (phi_f float, ev int < 2^512, stake, total) -> ['true'|'false'|'panic']"""
    cdir = os.path.join(core.REPLAY_CRATES, "lottery")
    import shutil
    shutil.copyfile(os.path.join(core.REPO, "Cargo.lock"), os.path.join(cdir, "Cargo.lock"))
    env = dict(os.environ)
    env["CARGO_NET_OFFLINE"] = "true"
    inp = "".join("%s %s %d %d\n" % (f64_bits(p), ev.to_bytes(64, "little").hex(), s, t) for p, ev, s, t in rows)
    p = subprocess.run(["cargo", "run", "--offline", "-q", "--release", "--target-dir", os.path.join(core.CACHE, "replay-target")],
                       cwd=cdir, env=env, input=inp, stdout=subprocess.PIPE, stderr=subprocess.PIPE, text=True, timeout=1500)
    if p.returncode != 0:
        raise RuntimeError("native lottery build/run failed: " + p.stderr[-500:])
    return [l.strip() for l in p.stdout.strip().split("\n")]


def exact_decision(phi_f, ev, stake, total):
    """exact value of `q < e^x` for the inputs as the code sees them (x built from the f64 ln), or None if inside 1e-30 of equality"""
    q = Fraction(2 ** 512, 2 ** 512 - ev)
    c = Fraction(math.log(1.0 - phi_f))  # same f64 value the code converts with Ratio::from_float (libm ln; see assumptions)
    x = -(Fraction(stake, total) * c)
    lo, hi = exact_exp_bounds(x)
    if q < lo:
        return True, q, x
    if q > hi:
        return False, q, x
    return None, q, x


def run(tier, seed):
    rep = core.Report("C08", tier, seed)
    rep.trusted_base = ["rustc nightly MIR", "mir2smt interpreter + num-bigint/num-rational call models (exact rationals = z3 Real)", "z3 nlsat",
                        "lemma: for 0<=x<N+2, S_N + t_{N+1} <= e^x <= S_N + t_{N+1}(N+2)/(N+2-x) (geometric majorant of the series tail)"]
    B = 24 if tier == "quick" else 32
    N = 30 if tier == "quick" else 40
    rep.bounds = {"loop_unroll_B": B, "loop_iterations_in_code": 1000, "enclosure_degree_N": N, "x_must_hold": "[0, 2.5]", "x_known_finding_region": "(2.5, 8]"}
    rep.assumptions = [
        "Ratio<BigInt> arithmetic is exact: modelled as real arithmetic (precise, not an approximation)",
        "ln(1 - phi_f) is an arbitrary non-positive real c (superset of the f64 libm value); x = -(stake/total)*c >= 0; q = 2^512/(2^512 - ev) >= 1",
        "e^x is a fresh real E constrained by the degree-%d Taylor enclosure (trusted lemma)" % N,
        "total_stake >= 1; stake <= total_stake",
        "the 'numerically negligible band' is defined as |q - e^x| <= 5*x^(B+1)/(B+1)! with B = %d (<= 1e-12 relative for x <= 2.5): iterations B+1..1000 only act inside it" % B,
    ]
    rep.outside = ["the rug backend (117-bit floats)", "f64 rounding of ln (c is any non-positive real)", "Blake2b producing the draw (evaluate_dense_mapping)",
                   "x > 8 (phi_f > 0.9996 at full stake)"]
    rep.functions = ["source hashes: %s" % core.source_hashes(SRC)]
    rep.solver_vars = ["draw q >= 1 (real)", "exponent x in [0, X] (real)", "ev in [0, 2^512), stake, total_stake: u64, c <= 0 real (is_lottery_won)", "phi_f: IEEE-754 binary64 (guard)"]
    try:
        path, dt = mir.dump("mithril-stm")
    except Exception as e:
        rep.inconcl("MIR dump failed: %s" % e)
        return rep.finish()
    prog = MI.Program(open(path).read(), source_root=os.path.join(core.REPO, "mithril-stm"))
    cap = find_cap(open(path).read())
    if cap is None:
        rep.inconcl("the iteration cap passed to taylor_comparison is not a constant in is_lottery_won's MIR")
        cap = 1000
    CAP[0] = cap
    rep.bounds["loop_iterations_in_code"] = cap
    try:
        decide(rep, prog, tier, B, N)
    except MI.Unencodable as e:
        rep.inconcl("unencodable: %s" % e)
    return rep.finish()


CAP = [1000]


def find_cap(mir_text):
    """the iteration cap is_lottery_won passes to taylor_comparison, read from its MIR (a constant in the source)"""
    m = re.search(r"\nfn (?:[\w:]+::)?is_lottery_won\(.*?\n}\n", mir_text, re.S)
    if not m:
        return None
    c = re.search(r"taylor_comparison\(const (\d+)_usize", m.group(0))
    return int(c.group(1)) if c else None


def sym_taylor(prog, B, q, x, extra=()):
    I = MI.Interp(prog, models=[NM.num_models, MM.core_models], unroll=B)
    I.enum_tables.update(MM.ENUM_TABLE_EXTRA)
    I.prune = False
    f = prog.find_one(r"^taylor_comparison$")
    st = MI.State()
    for c in extra:
        st.assume(c)
    outs = I.call_fn(f, [z3.IntVal(CAP[0]), q, x], st)
    return I, outs


def decide(rep, prog, tier, B, N):
    tmo = 120 if tier == "quick" else 900
    q, x, E = z3.Reals("q x E")
    I, outs = sym_taylor(prog, B, q, x, extra=[q >= 1, x >= 0])
    rets = [o for o in outs if o.kind == "return"]
    exh = [o for o in outs if o.kind == "exhausted"]
    pan = [o for o in outs if o.kind == "panic"]
    rep.functions += sorted("%s -> %s" % (k, v) for k, v in I.calls_seen.items())
    rep.notes.append("taylor_comparison: %d returning paths, %d residual (undecided after B), %d panic paths; interpreter %s" % (len(rets), len(exh), len(pan), I.stats))
    want = (2 * B, 1) if CAP[0] > B else (2 * CAP[0] + 1, 0)  # a cap below B ends the loop inside the unrolling: one more (final `false`) return, no residual
    if (len(rets), len(exh)) != want:
        rep.inconcl("unexpected path structure: %d returns / %d residual for B=%d, cap=%d" % (len(rets), len(exh), B, CAP[0]))
    for o in pan:
        rep.inconcl("panic path in taylor_comparison: %s" % o.msg)
    enc = exp_enclosure(x, E, N)
    failures = []

    def won(o):
        v = z3.simplify(o.value)
        return z3.is_true(v)

    # iteration index of a returning path = number of loop conditions in its pc; recover it from the order
    # (paths are produced by DFS; compute k by counting decided-comparisons in pc instead)
    def iteration_of(o):
        return (len(o.pc) - 2 + 1) // 2 if True else 0

    # ---- 1. decided => correct, on [0, 2.5] (must hold) and on (2.5, 8] (known finding region) ----------------
    for region, lo, hi, must in (("x<=2.5", Fraction(0), X_MUST, True), ("2.5<x<=8", X_MUST, X_KNOWN_HI, False)):
        # group the 2B paths by polarity to keep the number of queries small: one query per (polarity, block of iterations)
        for pol in (True, False):
            group = sorted([o for o in rets if won(o) == pol], key=lambda o: len(o.pc))  # by iteration
            blk = 6
            for g0 in range(0, len(group), blk):
                sub = group[g0:g0 + blk]
                cond = z3.Or([z3.And(list(o.pc)) for o in sub])
                wrong = (q >= E) if pol else (q < E)
                name = "c08_decided_correct_%s_%s_%d" % ("won" if pol else "lost", region.replace("<", "lt").replace("=", "e").replace(".", "_"), g0 // blk)
                ob = rep.add(core.Obligation(name, "smt", "paths returning %s within iterations group %d on %s: result = (q < e^x)" % ("won" if pol else "lost", g0 // blk, region),
                                             {"vccs": len(sub), "B": B, "N": N}))
                dom = [x >= float(lo) if lo == 0 else x > z3.RealVal(str(lo)), x <= z3.RealVal(str(hi))]
                r = smt.check(dom + enc + [cond, wrong], timeout_s=120 if must else 60, tactic=None)
                ob.solver_s = r.seconds
                if r.status == "unsat":
                    ob.status = "discharged"
                elif r.status == "sat":
                    ob.status = "failed"
                    mq, mx = r.model.eval(q, model_completion=True), r.model.eval(x, model_completion=True)
                    fq = Fraction(mq.numerator_as_long(), mq.denominator_as_long())
                    fx = Fraction(mx.numerator_as_long(), mx.denominator_as_long())
                    # which path?
                    it = None
                    for o in sub:
                        if z3.is_true(r.model.eval(z3.And(list(o.pc)), model_completion=True)):
                            it = rets.index(o)
                    ob.counterexample = {"q": str(fq), "x": str(fx), "q_float": float(fq), "x_float": float(fx), "returned": "won" if pol else "lost"}
                    failures.append({"clause": "decided_correct", "polarity": "won-but-lost" if pol else "lost-but-won", "q": fq, "x": fx, "ob": ob,
                                     "first_iteration": z3.is_true(r.model.eval(z3.And(list(sub[0].pc)), model_completion=True)) and g0 == 0, "region": region})
                else:
                    if must:
                        ob.status = "inconclusive"
                        ob.detail = r.reason
                        rep.inconcl("%s: %s" % (name, r.reason))
                    else:
                        ob.status = "expected-fail-ok"
                        ob.detail = "solver gave up (%s) on the region outside the must-hold claim" % r.reason
    # ---- 2. negligible band --------------------------------------------------------------------------------------
    if exh:
        o = exh[0]
        t = z3.RealVal(1)
        for i in range(1, B + 2):
            t = t * x / i
        ob = rep.add(core.Obligation("c08_band_after_B", "smt", "a draw still undecided after B=%d iterations satisfies |q - e^x| <= 5*x^(B+1)/(B+1)! (x <= 2.5)" % B, {"B": B}))
        r = smt.check([x >= 0, x <= z3.RealVal(str(X_MUST))] + enc + list(o.pc) + [z3.Or(q - E > 5 * t, E - q > 5 * t)], timeout_s=tmo)
        ob.solver_s = r.seconds
        ob.status = "discharged" if r.status == "unsat" else "failed" if r.status == "sat" else "inconclusive"
        if r.status == "sat":
            mq, mx = r.model.eval(q, model_completion=True), r.model.eval(x, model_completion=True)
            failures.append({"clause": "band", "polarity": "undecided-outside-band", "q": Fraction(mq.numerator_as_long(), mq.denominator_as_long()),
                             "x": Fraction(mx.numerator_as_long(), mx.denominator_as_long()), "ob": ob, "first_iteration": False, "region": "x<=2.5"})
        elif r.status != "unsat":
            rep.inconcl("band: %s" % r.reason)
        # the fall-through after the loop returns false (structural)
        f = prog.find_one(r"^taylor_comparison$")
        ob = rep.add(core.Obligation("c08_fallthrough_is_lost", "smt", "when the iterator is exhausted the function returns false (MIR: the None arm of Range::next assigns _0 = const false)"))
        ok = False
        for b in f.blocks.values():
            P.materialize(b)
            if b.term[0] == "switch":
                pass
        # find the block reached on discriminant 0 (None) of the iterator's next(): its statements assign _0 = false
        for b in f.blocks.values():
            if b.term[0] == "switch" and any(c == 0 for c, _ in b.term[2]):
                tgt = [t_ for c, t_ in b.term[2] if c == 0][0]
                nb = P.materialize(f.blocks[tgt])
                if any(s[0] == "assign" and s[1] == (0, []) and s[2] == ("use", ("const", "false")) for s in nb.stmts):
                    ok = True
        ob.status = "discharged" if ok else "inconclusive"
        if not ok:
            rep.inconcl("could not confirm the loop fall-through value")
    # ---- 3. monotone in the draw (relational, two runs) ----------------------------------------------------------
    Bm = 8 if tier == "quick" else 12
    q2 = z3.Real("q2")
    I1, o1 = sym_taylor(prog, Bm, q, x, extra=[q >= 1, x >= 0])
    I2, o2 = sym_taylor(prog, Bm, q2, x, extra=[q2 >= 1, x >= 0])
    won1 = [o for o in o1 if o.kind == "return" and won(o)]
    lost2 = [o for o in o2 if o.kind == "return" and not won(o)]
    ob = rep.add(core.Obligation("c08_monotone_in_draw", "smt", "q2 <= q and won(q, x) => not lost(q2, x), all pairs of paths deciding within %d iterations, any x in [0, 8]" % Bm,
                                 {"vccs": len(won1) * len(lost2), "B": Bm}))
    r = smt.check([x >= 0, x <= 8, q2 <= q, z3.Or([z3.And(list(o.pc)) for o in won1]), z3.Or([z3.And(list(o.pc)) for o in lost2])], timeout_s=tmo)
    ob.solver_s = r.seconds
    ob.status = "discharged" if r.status == "unsat" else "failed" if r.status == "sat" else "inconclusive"
    if r.status == "sat":
        mq, mx, mq2 = (r.model.eval(v, model_completion=True) for v in (q, x, q2))
        failures.append({"clause": "monotone_draw", "polarity": "won(q) lost(q2<=q)", "q": Fraction(mq.numerator_as_long(), mq.denominator_as_long()),
                         "q2": Fraction(mq2.numerator_as_long(), mq2.denominator_as_long()),
                         "x": Fraction(mx.numerator_as_long(), mx.denominator_as_long()), "ob": ob, "first_iteration": False, "region": "any"})
    elif r.status != "unsat":
        rep.inconcl("monotone in draw: %s" % r.reason)
    # ---- 4. monotone in stake: corollary of 1 + monotonicity of exp (recorded, not a separate query) -------------
    rep.notes.append("monotone in stake: for x <= x' <= 2.5 and q outside the band of x', won(q,x) => q < e^x <= e^x' => not lost(q,x') by obligation 1 on both runs and monotonicity of exp")
    # ---- 5/6/7: is_lottery_won wrapper ------------------------------------------------------------------------------
    wrapper(rep, prog, tier, tmo, failures)
    # ---- translator validation + replay ----------------------------------------------------------------------------
    validate_and_replay(rep, prog, tier, failures)


def wrapper(rep, prog, tier, tmo, failures):
    I = MI.Interp(prog, models=[NM.num_models, lottery_models, MM.core_models], unroll=2)
    I.enum_tables.update(MM.ENUM_TABLE_EXTRA)
    I.prune = False
    f = prog.find_one(r"^is_lottery_won$")
    tay = prog.find_one(r"^taylor_comparison$")
    I.watch = {tay.name}
    phi = z3.FP("phi_f", z3.Float64())
    ev, stake, total = z3.Ints("ev stake total")
    st = MI.State()
    st.assume(z3.And(ev >= 0, ev < 2 ** 512, stake >= 0, stake <= total, total >= 1, total < 2 ** 64))
    # stop at the call of taylor_comparison: model it as an oracle so that only the wrapper's own code is executed here
    outs = I.call_fn(f, [phi, MI.Agg("bytes_le_int", None, (ev,)), stake, total], st)
    guard_true = [o for o in outs if o.kind == "return" and not o.state.trace_has("taylor")] if False else None
    n_guard = 0
    n_call = 0
    bad = []
    c = z3.Real("ln_1_minus_phi_f")
    for o in outs:
        if o.kind == "panic":
            # Option::expect on from_float: only NaN/inf, i.e. phi_f >= 1 or NaN; must not be reachable for phi_f in (0,1)
            ob = rep.add(core.Obligation("c08_wrapper_nopanic_%d" % len(rep.obligations), "smt", "no panic in is_lottery_won for phi_f in (0, 1): %s" % o.msg[:60]))
            r = smt.check(list(o.pc) + [z3.fpGT(phi, z3.FPVal(0.0, z3.Float64())), z3.fpLT(phi, z3.FPVal(1.0, z3.Float64()))], timeout_s=tmo)
            ob.solver_s = r.seconds
            ob.status = "discharged" if r.status == "unsat" else "failed" if r.status == "sat" else "inconclusive"
            if r.status != "unsat":
                rep.inconcl("wrapper panic path: %s" % r.status)
            continue
        evs = [e for e in o.state.trace if e[0] == tay.name]
        if not evs:
            n_guard += 1
            # 6. phi_f = 1 guard: returns true, and is taken when phi_f == 1.0
            ob = rep.add(core.Obligation("c08_phi_one_guard_returns_won", "smt", "the early-return path returns true and is only taken when |phi_f - 1| < EPSILON"))
            v = z3.simplify(o.value)
            r = smt.check(list(o.pc) + [z3.Not(z3.fpLT(z3.fpAbs(z3.fpSub(z3.RNE(), phi, z3.FPVal(1.0, z3.Float64()))), z3.FPVal(2.220446049250313e-16, z3.Float64())))], timeout_s=tmo)
            ob.solver_s = r.seconds
            ob.status = "discharged" if (z3.is_true(v) and r.status == "unsat") else "failed"
            if ob.status == "failed":
                failures.append({"clause": "phi_one_guard", "polarity": "guard", "ob": ob, "q": None, "x": None, "first_iteration": False, "region": "phi_f=1"})
        else:
            n_call += 1
            (cn, cargs, cres) = evs[0]
            qv, xv = cargs[1], cargs[2]
            want_q = z3.ToReal(z3.IntVal(2 ** 512)) / z3.ToReal(z3.IntVal(2 ** 512) - ev)
            want_x = -((z3.ToReal(stake) / z3.ToReal(total)) * c)
            ob = rep.add(core.Obligation("c08_wrapper_dataflow", "smt", "is_lottery_won passes q = 2^512/(2^512-ev), x = -(stake/total)*ln(1-phi_f) and the iteration cap read from its MIR (%d; the series obligations are run with that cap) to taylor_comparison and returns its result" % CAP[0]))
            r = smt.check(list(o.pc) + [z3.Or(qv != want_q, xv != want_x, cargs[0] != CAP[0])], timeout_s=tmo)
            same_result = cres is o.value or (z3.is_expr(cres) and z3.is_expr(o.value) and z3.eq(cres, o.value))
            ob.solver_s = r.seconds
            ob.status = "discharged" if (r.status == "unsat" and same_result) else "failed" if r.status == "sat" or not same_result else "inconclusive"
            if ob.status != "discharged":
                failures.append({"clause": "wrapper_dataflow", "polarity": "args", "ob": ob, "q": None, "x": None, "first_iteration": False, "region": "wrapper"})
            # 5. zero stake => x = 0
            ob = rep.add(core.Obligation("c08_zero_stake_x_is_zero", "smt", "stake = 0 => x = 0 (then taylor_comparison(q, 0) is lost for every q >= 1: next obligation)"))
            r = smt.check(list(o.pc) + [stake == 0, xv != 0], timeout_s=tmo)
            ob.solver_s = r.seconds
            ob.status = "discharged" if r.status == "unsat" else "failed"
            # phi_f == 1.0 exactly never reaches the series
            ob = rep.add(core.Obligation("c08_phi_one_takes_guard", "smt", "phi_f = 1.0 never reaches the Taylor comparison (always won)"))
            r = smt.check(list(o.pc) + [z3.fpEQ(phi, z3.FPVal(1.0, z3.Float64()))], timeout_s=tmo)
            ob.solver_s = r.seconds
            ob.status = "discharged" if r.status == "unsat" else "failed"
            if ob.status == "failed":
                failures.append({"clause": "phi_one_guard", "polarity": "guard", "ob": ob, "q": None, "x": None, "first_iteration": False, "region": "phi_f=1"})
    if n_guard != 1 or n_call != 1:
        rep.inconcl("is_lottery_won: expected one guard path and one series path, got %d/%d" % (n_guard, n_call))
    # zero stake: x = 0 => never won
    q, x = z3.Reals("q x")
    I0, outs0 = sym_taylor(prog, 4, q, x, extra=[q >= 1, x == 0])
    ob = rep.add(core.Obligation("c08_zero_exponent_never_won", "smt", "x = 0: no path returns won, for every q >= 1"))
    wonp = [o for o in outs0 if o.kind == "return" and z3.is_true(z3.simplify(o.value))]
    r = smt.check([z3.Or([z3.And(list(o.pc)) for o in wonp])] if wonp else [z3.BoolVal(False)], timeout_s=tmo)
    ob.solver_s = r.seconds
    ob.status = "discharged" if r.status == "unsat" else "failed"
    if ob.status == "failed":
        failures.append({"clause": "zero_stake", "polarity": "won-at-zero-stake", "ob": ob, "q": None, "x": Fraction(0), "first_iteration": False, "region": "x=0"})
    # 7. signer and verifier consult the same function with the same argument roles
    same_decision(rep, prog, failures)


def lottery_models(I, st, caller, func, args, argtys, dest_ty):
    f = MM.strip_std_paths(func)
    if re.match(r"^std::f64::<impl f64>::ln$", f) or re.match(r"^core::f64::<impl f64>::ln$", f):
        return MM.ret(st, MI.Opaque("ln", args[0]))
    if re.match(r"^(num_rational::)?Ratio::<(num_bigint::)?BigInt>::from_float::<f64>$", f):
        # Some(c) with c an arbitrary non-positive real when the argument is finite; None for NaN / infinite
        v = args[0]
        arg = v.payload if isinstance(v, MI.Opaque) else None
        c = z3.Real("ln_1_minus_phi_f")
        fin = z3.Bool("ln_is_finite")
        if arg is not None:
            one_minus = arg
            # ln(y) finite  <=>  0 < y < inf ; y = 1 - phi_f
            st.assume(fin == z3.And(z3.fpGT(one_minus, z3.FPVal(0.0, z3.Float64())), z3.Not(z3.fpIsInf(one_minus)), z3.Not(z3.fpIsNaN(one_minus))))
            st.assume(z3.Implies(z3.fpLEQ(one_minus, z3.FPVal(1.0, z3.Float64())), c <= 0))
        return MM.ret(st, MI.EnumV("Option", z3.If(fin, 1, 0), {1: (c,)}))
    if f == "taylor_comparison":
        r = z3.Bool("taylor_result")
        st.trace = st.trace + (("taylor_comparison", tuple(args), r),)
        return MM.ret(st, r)
    return None


_DB = {}


def named_suffix(ty, projs):
    """render field projections with field names, walking the struct definitions in the sources"""
    out = ""
    db = _DB.get("db")
    cur = ty
    for p in projs:
        if p[0] == "deref":
            cur = re.sub(r"^&(mut )?", "", (cur or "").strip())
            continue
        if p[0] == "field":
            nm = None
            if db is not None and cur:
                base = MI.norm_type(cur).lstrip("&").split("<")[0]
                fl = db.struct_fields(base)
                if fl and p[1] < len(fl):
                    nm = fl[p[1]][0]
            out += "." + (nm if nm else str(p[1]))
            cur = p[2]
        else:
            out += "[%s]" % p[0]
    return out


def provenance(f, op, depth=0):
    """syntactic origin of an operand inside one MIR body"""
    if depth > 12:
        return "?"
    if op[0] == "const":
        return "const " + op[1]
    local, projs = op[1]
    suffix = named_suffix(f.locals.get(local), projs)
    dbg = [n for n, pl in f.debug.items() if pl == "_%d" % local]
    if local <= len(f.params) and local >= 1:
        return "param%d(%s)%s" % (local, dbg[0] if dbg else "", suffix)
    defs = []
    for b in f.blocks.values():
        P.materialize(b)
        for s in b.stmts:
            if s[0] == "assign" and s[1] == (local, []):
                defs.append(("rv", s[2]))
        if b.term[0] == "call" and b.term[1] == (local, []):
            defs.append(("call", b.term))
    if len(defs) != 1:
        return "%s<multi:%d>%s" % (dbg[0] if dbg else "_%d" % local, len(defs), suffix)
    kind, d = defs[0]
    if kind == "call":
        return "call %s(%s)%s" % (MI.last_segment(d[2])[0], ", ".join(provenance(f, a, depth + 1) for a in d[3]), suffix)
    if d[0] == "use":
        return provenance(f, d[1], depth + 1) + suffix
    if d[0] == "ref":
        return "&" + provenance(f, ("copy", d[2]), depth + 1) + suffix
    if d[0] == "cast":
        return provenance(f, d[1], depth + 1) + suffix
    return "%s%s" % (d[0], suffix)


def same_decision(rep, prog, failures):
    sites = []
    for f in prog.fns:
        for b in f.blocks.values():
            P.materialize(b)
            if b.term[0] == "call" and MI.last_segment(b.term[2])[0] == "is_lottery_won" and "eligibility" not in f.name:
                sites.append((f, b.term))
    ob = rep.add(core.Obligation("c08_signer_and_verifier_same_function", "smt",
                                 "signer (check_lottery) and verifier (check_indices) both call the single is_lottery_won body with (phi_f field of the parameters, "
                                 "evaluate_dense_mapping(sigma, msg, index), stake, total_stake) in that order (syntactic data-flow on both MIR bodies)"))
    from mir2smt import symval
    _DB["db"] = symval.TypeDB([os.path.join(core.REPO, "mithril-stm", "src")])
    names = sorted(MI.last_segment(f.name)[0] for f, _ in sites)
    bodies = [g for g in prog.fns if MI.last_segment(g.name)[0] == "is_lottery_won" and g.kind == "fn"]
    provs = {}
    ok = len(bodies) == 1 and names == ["check_indices", "check_lottery"]
    for f, t in sites:
        pv = [provenance(f, a) for a in t[3]]
        provs[MI.last_segment(f.name)[0]] = pv
        if len(pv) != 4:
            ok = False
            continue
        if not re.search(r"^call evaluate_dense_mapping\(", pv[1]):
            ok = False
        if "stake" not in pv[2] or "total_stake" not in pv[3] or "total_stake" in pv[2]:
            ok = False
    for k, pv in provs.items():
        if not pv[0].endswith(".phi_f"):
            ok = False
    ob.detail = str(provs)[:900]
    ob.status = "discharged" if ok else "failed"
    if not ok:
        failures.append({"clause": "same_decision", "polarity": "call sites differ", "ob": ob, "q": None, "x": None, "first_iteration": False, "region": "call sites", "provs": provs})
    # inter-procedural part: where do the stake / total-stake / phi_f arguments ultimately come from on the verifier side?
    def shortname(f):
        mm = re.search(r"([a-z_]+\.rs)", f.name)
        return "%s::%s" % (mm.group(1) if mm else "?", MI.last_segment(f.name)[0])

    def origins(f, pidx, depth, seen):
        key = (f.name, pidx)
        if key in seen or depth == 0:
            return {"param%d of %s" % (pidx, shortname(f))}
        seen = seen | {key}
        seg = MI.last_segment(f.name)[0]
        callers = []
        for g in prog.fns:
            if "{closure" in g.name and False:
                continue
            for b in g.blocks.values():
                P.materialize(b)
                if b.term[0] == "call" and MI.last_segment(b.term[2])[0] == seg and len(b.term[3]) == len(f.params) and g is not f:
                    # same callee? compare normalised parameter types
                    callee = None
                    try:
                        callee = MI.Interp(prog).resolve(g, b.term[2], [None] * len(b.term[3]))
                    except MI.Unencodable:
                        callee = None
                    if callee is not None and callee is not f:
                        continue
                    if callee is None and MI.norm_type(f.params[0][1]).split("<")[0].lstrip("&") not in MI.norm_type(g.locals.get(b.term[3][0][1][0], "") if b.term[3][0][0] != "const" else ""):
                        continue
                    callers.append((g, b.term))
        if not callers:
            return {"param%d of %s (no caller in the crate: public entry)" % (pidx, shortname(f))}
        res = set()
        for g, t in callers:
            pv = provenance(g, t[3][pidx - 1])
            mm = re.fullmatch(r"&?param(\d+)\([a-z_0-9]*\)\*?", pv)
            if mm:
                res |= origins(g, int(mm.group(1)), depth - 1, seen)
            else:
                res.add("%s in %s" % (pv, shortname(g)))
        return res

    inner = [f for f, t in sites if MI.last_segment(f.name)[0] == "check_indices"]
    ob2 = rep.add(core.Obligation("c08_verifier_total_stake_origin", "smt",
                                  "on every verifier path the total-stake argument of the lottery is the aggregate key's total stake and the stake argument never is "
                                  "(inter-procedural syntactic data-flow from check_indices up to the public entry points)"))
    ok2 = bool(inner)
    detail = {}
    for f in inner:
        # parameter positions of stake / total_stake in check_indices by debug name
        names = {n: int(pl[1:]) for n, pl in f.debug.items() if re.fullmatch(r"_\d+", pl) and int(pl[1:]) <= len(f.params)}
        if "total_stake" not in names or "stake" not in names:
            ok2 = False
            continue
        o_tot = origins(f, names["total_stake"], 4, frozenset())
        o_stk = origins(f, names["stake"], 4, frozenset())
        detail = {"total_stake": sorted(o_tot), "stake": sorted(o_stk)}
        for o in o_tot:
            if not re.search(r"get_total_stake\(|total_stake", o):
                ok2 = False
        for o in o_stk:
            if re.search(r"get_total_stake\(|total_stake", o):
                ok2 = False
    ob2.detail = str(detail)[:1200]
    ob2.status = "discharged" if ok2 else "failed"
    if not ok2:
        failures.append({"clause": "total_stake_origin", "polarity": "verifier decides with another total stake than the signer", "ob": ob2, "q": None, "x": None,
                         "first_iteration": False, "region": "verifier call chain"})


def to_inputs(qf, xf):
    """(phi_f, ev, stake, total) realising approximately the exact rationals (q, x): stake = total = 1, phi_f = 1 - e^-x"""
    phi = 1.0 - math.exp(-float(xf))
    ev = (2 ** 512 * (qf.numerator - qf.denominator)) // qf.numerator  # ev = 2^512 (1 - 1/q)
    return phi, ev, 1, 1


def validate_and_replay(rep, prog, tier, failures):
    # ---- translator validation: concrete grid through the encoding (concrete symbolic run) and the native function ----
    import random
    rnd = random.Random(99 + rep.seed)
    rows = []
    for phi in (0.05, 0.2, 0.5, 0.9):
        for st_, tot in ((1, 10), (3, 7), (1, 1), (0, 5), (10 ** 9, 4 * 10 ** 10)):
            w = Fraction(st_, tot)
            thr = 1.0 - (1.0 - phi) ** float(w)
            for delta in (-1e-3, 1e-3, -0.2, 0.3):
                p = min(max(thr + delta, 0.0), 0.999999)
                ev = int(Fraction(p) * 2 ** 512)
                rows.append((phi, ev, st_, tot))
    native = native_lottery(rows)
    mism = 0
    checked = 0
    for (phi, ev, st_, tot), nat in zip(rows, native):
        qf = Fraction(2 ** 512, 2 ** 512 - ev)
        xf = -(Fraction(st_, tot) * Fraction(math.log(1.0 - phi)))
        I, outs = sym_taylor(prog, 40, z3.RealVal(str(qf)), z3.RealVal(str(xf)))
        vals = []
        for o in outs:
            if o.kind == "return" and all(z3.is_true(z3.simplify(c)) for c in o.pc):
                vals.append(str(z3.simplify(o.value)).lower())
        if not vals:
            continue  # undecided within 40 iterations (equality band): the fall-through is covered structurally
        checked += 1
        if vals != [nat]:
            mism += 1
            rep.notes.append("translator validation mismatch: inputs %s encoding=%s native=%s" % ((phi, ev % 1000, st_, tot), vals, nat))
    rep.traces_validated += checked - mism
    rep.extra["translator_validation"] = {"rows": checked, "mismatches": mism}
    if mism:
        rep.inconcl("translator invalid: %d/%d concrete rows disagree between encoding and native is_lottery_won" % (mism, checked))
    # ---- replay of counterexamples ----------------------------------------------------------------------------------
    k = 0
    for fl in failures:
        k += 1
        ob = fl["ob"]
        role = "c08-" + fl["clause"]
        native = {}
        reproduced = False
        if fl["clause"] == "decided_correct" and fl["q"] is not None:
            # classification: the documented weakness = lost-but-won decided at the first iteration for x > 2.5
            if fl["polarity"] == "lost-but-won" and fl["x"] > X_MUST and fl["first_iteration"]:
                role = "c08-taylor-bound-x-gt-2.5"
            else:
                role = "c08-decided-wrong-%s-%s" % (fl["polarity"], "x-le-2.5" if fl["x"] <= X_MUST else "x-gt-2.5")
            # native replay: realise (q, x) with stake=total=1, then pick q in the middle of the violating band of the *actual* x
            phi, ev, s_, t_ = to_inputs(fl["q"], fl["x"])
            dec, q_act, x_act = exact_decision(phi, ev, s_, t_)
            nat = native_lottery([(phi, ev, s_, t_)])[0]
            native = {"phi_f": phi, "ev_hex_le": ev.to_bytes(64, "little").hex(), "stake": s_, "total": t_, "native_is_lottery_won": nat,
                      "exact_q_lt_exp_x": dec, "x_actual": float(x_act), "q_actual": float(q_act)}
            reproduced = dec is not None and nat in ("true", "false") and (nat == "true") != dec
        elif fl["clause"] in ("band", "monotone_draw", "zero_stake"):
            reproduced = False
            try:
                if fl["clause"] == "monotone_draw":
                    phi, ev, s_, t_ = to_inputs(fl["q"], fl["x"])
                    phi2, ev2, _, _ = to_inputs(fl["q2"], fl["x"])
                    nat = native_lottery([(phi, ev, 1, 1), (phi, ev2, 1, 1)])
                    native = {"won(q)": nat[0], "won(q2<=q)": nat[1]}
                    reproduced = nat[0] == "true" and nat[1] == "false" and ev2 <= ev
                elif fl["clause"] == "zero_stake":
                    nat = native_lottery([(0.5, 2 ** 511, 0, 5), (0.5, 1, 0, 5), (0.9, 0, 0, 1)])
                    native = {"zero stake draws": nat}
                    reproduced = "true" in nat
                else:
                    phi, ev, s_, t_ = to_inputs(fl["q"], fl["x"])
                    dec, q_act, x_act = exact_decision(phi, ev, s_, t_)
                    nat = native_lottery([(phi, ev, s_, t_)])[0]
                    native = {"native": nat, "exact": dec}
                    reproduced = dec is not None and (nat == "true") != dec
            except Exception as e:
                native["error"] = str(e)
        elif fl["clause"] in ("total_stake_origin", "same_decision"):
            try:
                from checks.c01 import native_stm
                native = {"sign_vs_verify": native_stm("sign_vs_verify"), "lost_index": native_stm("lost_index"), "structural": ob.detail[:600]}
                reproduced = native["sign_vs_verify"].startswith("disagree") or "VIOLATED" in native["lost_index"]
            except Exception as e:
                native = {"error": str(e)}
        else:
            reproduced = True  # structural obligations on the MIR: the obligation's own detail is the evidence
            native = {"structural": ob.detail}
        ob.role = role
        path = core.write_replay("C08", k, {"property": "C08", "role": role, "obligation": ob.name, "clause": fl["clause"], "polarity": fl["polarity"],
                                            "q": str(fl.get("q")), "x": str(fl.get("x")), "native_replay": native})
        what = "%s %s at x=%s q=%s (%s); native %s" % (fl["clause"], fl["polarity"], float(fl["x"]) if fl.get("x") is not None else None,
                                                      float(fl["q"]) if fl.get("q") is not None else None, fl["region"], str(native)[:200])
        rep.violation(role, what, path, reproduced)
        if reproduced:
            rep.traces_validated += 1
