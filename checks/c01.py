"""C01 — multi-signature soundness: accepted aggregates carry a real stake quorum (structural part; crypto as oracles).

Engine B: the MIR of ConcatenationProof::{verify, preliminary_verify, batch_verify, collect_signatures_verification_keys},
SingleSignature::check_indices -> SingleSignatureForConcatenation::check_indices and the accessors they call is executed
symbolically on an arbitrary proof value of an enumerated shape.  m, k, every index, stake and total stake are symbolic
64-bit integers; keys/signatures/paths/messages are elements of uninterpreted sorts; the lottery, the dense mapping,
Merkle batch membership and the BLS aggregate check are deterministic uninterpreted functions of their arguments.
"""
import os
import re

import z3

from lib import core, mir, smt
from mir2smt import interp as MI
from mir2smt import models as MM
from mir2smt import container_models as CM
from mir2smt import symval
from mir2smt.interp import Abs, Agg, EnumV, Ref, Opaque, Outcome, Unencodable

SRC = ["mithril-stm/src/proof_system/concatenation/proof.rs", "mithril-stm/src/proof_system/concatenation/single_signature.rs",
       "mithril-stm/src/protocol/single_signature/signature.rs", "mithril-stm/src/proof_system/concatenation/aggregate_key.rs",
       "mithril-stm/src/protocol/key_registration/closed_registration_entry.rs"]

ABSTRACT = {
    r"BlsSignature": "sig",
    r"BlsVerificationKey|VerificationKeyForConcatenation": "vk",
    r"MerkleBatchPath<.*>": "bpath",
    r"MerkleTreeBatchCommitment<.*>": "commitment",
}
U64 = 2 ** 64

QUICK_SHAPES = [(1,), (2,), (1, 1), (2, 1)]
THOROUGH_SHAPES = QUICK_SHAPES + [(0,), (3,), (1, 2), (2, 2), (1, 1, 1), (0, 1), (2, 1, 1)]


class Ctx:
    def __init__(self, prog):
        self.prog = prog
        self.I = MI.Interp(prog, models=[self.models, CM.map_models, CM.container_models, MM.hof_models, MM.abs_models, MM.core_models], unroll=8)
        self.I.enum_tables.update(MM.ENUM_TABLE_EXTRA)
        self.I.prune = True
        self.db = symval.TypeDB([os.path.join(core.REPO, "mithril-stm", "src")])
        Int, Bool, F64 = z3.IntSort(), z3.BoolSort(), z3.Float64()
        self.EV = z3.Function("dense_mapping", Int, Int, Int, Int)           # (sigma, msg, index) -> draw id
        self.WON = z3.Function("lottery_won", F64, Int, Int, Int, Bool)       # (phi_f, draw, stake, total)
        self.CONCAT = z3.Function("msg_with_commitment", Int, Int, Int)       # (commitment, msg) -> bytes id
        self.funcs = {}

    def ufun(self, name, n_int, rng=None):
        key = (name, n_int, str(rng))
        if key not in self.funcs:
            self.funcs[key] = z3.Function("%s_%d" % (name, n_int), *([z3.IntSort()] * n_int + [rng if rng is not None else z3.BoolSort()]))
        return self.funcs[key]

    def models(self, I, st, caller, func, args, argtys, dest_ty):
        f = MM.strip_std_paths(func)
        if re.search(r"BlsSignature::evaluate_dense_mapping$", f):
            sg = MM.deref_all(I, st, args[0])
            msg = MM.deref_all(I, st, args[1])
            idx = args[2]
            return MM.ret(st, Abs("draw", self.EV(sg.term, msg.term, idx)))
        if re.search(r"(^|::)is_lottery_won$", f):
            phi, ev, stake, total = args
            r = self.WON(phi, ev.term, stake, total)
            st.trace = st.trace + (("is_lottery_won", (phi, ev.term, stake, total), r),)
            return MM.ret(st, r)
        if re.search(r"MerkleTreeBatchCommitment::<.*>::concatenate_with_message$", f):
            c = MM.deref_all(I, st, args[0])
            msg = MM.deref_all(I, st, args[1])
            return MM.ret(st, Abs("bytes", self.CONCAT(c.term, msg.term)))
        if re.search(r"MerkleTreeBatchCommitment::<.*>::verify_leaves_membership_from_batch_path$", f):
            c = MM.deref_all(I, st, args[0])
            leaves, _ = CM.seq_of(I, st, args[1])
            bp = MM.deref_all(I, st, args[2])
            flat = []
            for lf in leaves.fields:
                lf = MM.deref_all(I, st, lf)
                for x in lf.fields:
                    flat.append(x.term if isinstance(x, Abs) else x)
            fn = self.ufun("batch_membership", 2 + len(flat))
            ok = fn(c.term, bp.term, *flat)
            st.trace = st.trace + (("membership", (c.term, bp.term, tuple(flat)), ok),)
            return MM.ret(st, EnumV("Result", z3.If(ok, 0, 1), {0: (MI.UNIT,), 1: (Opaque("MerkleTreeError"),)}))
        if re.search(r"BlsSignature::verify_aggregate$", f):
            msg = MM.deref_all(I, st, args[0])
            vks, _ = CM.seq_of(I, st, args[1])
            sigs, _ = CM.seq_of(I, st, args[2])
            flat = [MM.deref_all(I, st, x).term for x in vks.fields] + [MM.deref_all(I, st, x).term for x in sigs.fields]
            fn = self.ufun("bls_verify_aggregate_%d" % len(vks.fields), 1 + len(flat))
            ok = fn(msg.term, *flat)
            st.trace = st.trace + (("verify_aggregate", (msg.term, tuple(flat), len(vks.fields)), ok),)
            return MM.ret(st, EnumV("Result", z3.If(ok, 0, 1), {0: (MI.UNIT,), 1: (Opaque("BlsError"),)}))
        if re.search(r"BlsSignature::aggregate$", f):
            vks, _ = CM.seq_of(I, st, args[0])
            sigs, _ = CM.seq_of(I, st, args[1])
            flat = [MM.deref_all(I, st, x).term for x in vks.fields] + [MM.deref_all(I, st, x).term for x in sigs.fields]
            n = len(vks.fields)
            avk = self.ufun("bls_aggregate_vk_%d" % n, len(flat), z3.IntSort())(*flat) if flat else z3.IntVal(-1)
            asg = self.ufun("bls_aggregate_sig_%d" % n, len(flat), z3.IntSort())(*flat) if flat else z3.IntVal(-2)
            okf = self.ufun("bls_aggregate_ok_%d" % n, len(flat))(*flat) if flat else z3.BoolVal(False)
            st.trace = st.trace + (("aggregate", (tuple(flat), n), (avk, asg)),)
            return MM.ret(st, EnumV("Result", z3.If(okf, 0, 1), {0: (Agg("tuple", None, (Abs("vk", avk), Abs("sig", asg))),), 1: (Opaque("BlsError"),)}))
        if re.search(r"BlsSignature::batch_verify_aggregates$", f):
            msgs, _ = CM.seq_of(I, st, args[0])
            vks, _ = CM.seq_of(I, st, args[1])
            sigs, _ = CM.seq_of(I, st, args[2])
            flat = [MM.deref_all(I, st, x).term for x in msgs.fields] + [MM.deref_all(I, st, x).term for x in vks.fields] + [MM.deref_all(I, st, x).term for x in sigs.fields]
            ok = self.ufun("bls_batch_verify_%d" % len(msgs.fields), len(flat))(*flat)
            st.trace = st.trace + (("batch_verify_aggregates", tuple(flat), ok),)
            return MM.ret(st, EnumV("Result", z3.If(ok, 0, 1), {0: (MI.UNIT,), 1: (Opaque("BlsError"),)}))
        m = re.match(r"^<(.*) as Iterator>::sum::<(.*)>$", f)
        if m and isinstance(args[0], Agg) and args[0].kind == "iter":
            # BLS group addition of keys / signatures without coefficients: an uninterpreted function of the summands, distinct from `aggregate`
            outs = []
            for s2, items in CM.drain(I, st.fork(), caller, args[0]):
                vals = [MM.deref_all(I, s2, x) for x in items]
                if not vals or not all(isinstance(v, Abs) for v in vals):
                    raise Unencodable("Iterator::sum over non-abstract values")
                fn = self.ufun("bls_plain_sum_%s" % vals[0].sort, len(vals), z3.IntSort())
                outs.append(Outcome("return", Abs(vals[0].sort, fn(*[v.term for v in vals])), s2))
            return outs
        if re.match(r"^<.* as (Clone|ToOwned)>::(clone|to_owned)$", f):
            return MM.ret(st, MM.deref_all(I, st, args[0]))
        if re.match(r"^<Vec<u8> as Deref>::deref$", f) and isinstance(MM.deref_all(I, st, args[0]), Abs):
            return MM.ret(st, args[0])
        if re.search(r"Vec::<u8>::as_slice$", f) and isinstance(MM.deref_all(I, st, args[0]), Abs):
            return MM.ret(st, args[0])
        if re.match(r"^core::panicking::assert_failed", f):
            return MM.panic(st, "assert_eq failed")
        return None

    def make_inputs(self, shape, tag=""):
        sb = symval.SymBuilder(self.db, self.I, abstract=ABSTRACT,
                               vec_lengths=[(r"proof%s\.signatures" % tag, len(shape))] +
                                           [(r"proof%s\.signatures\[%d\]\.sig\.concatenation_signature\.indexes" % (tag, i), n) for i, n in enumerate(shape)])
        proof = sb.make("ConcatenationProof", "proof" + tag)
        avk = sb.make("AggregateVerificationKeyForConcatenation", "avk" + tag)
        params = sb.make("Parameters", "params" + tag)
        msg = Abs("bytes", z3.Int("msg" + tag))
        return sb, proof, avk, params, msg

    def run_verify(self, shape):
        sb, proof, avk, params, msg = self.make_inputs(shape)
        f = self.prog.find_one(r"proof\.rs.*>::verify$", nparams=4)
        st = MI.State()
        for c in sb.constraints:
            st.assume(c)
        fr = self.I.frame_counter + 1
        self.I.frame_counter += 4
        st.mem[(fr, 0)] = proof
        st.mem[(fr + 1, 0)] = msg
        st.mem[(fr + 2, 0)] = avk
        st.mem[(fr + 3, 0)] = params
        outs = self.I.call_fn(f, [Ref(fr, 0, ()), Ref(fr + 1, 0, ()), Ref(fr + 2, 0, ()), Ref(fr + 3, 0, ())], st)
        return sb, proof, avk, params, msg, outs


def native_stm(query, *extra):
    import shutil, subprocess
    cdir = os.path.join(core.REPLAY_CRATES, "stm")
    shutil.copyfile(os.path.join(core.REPO, "Cargo.lock"), os.path.join(cdir, "Cargo.lock"))
    env = dict(os.environ)
    env["CARGO_NET_OFFLINE"] = "true"
    p = subprocess.run(["cargo", "run", "--offline", "-q", "--target-dir", os.path.join(core.CACHE, "replay-target"), "--", query] + list(extra),
                       cwd=cdir, env=env, stdout=subprocess.PIPE, stderr=subprocess.PIPE, text=True, timeout=2400)
    if p.returncode != 0:
        raise RuntimeError("native stm replay failed: " + p.stderr[-400:])
    return p.stdout.strip()


def accepted_outcomes(outs, rep, what):
    acc = []
    for o in outs:
        if o.kind == "panic":
            continue
        if o.kind != "return":
            rep.inconcl("%s: %s %s" % (what, o.kind, o.msg))
            continue
        v = o.value
        d = v.discr
        if isinstance(d, int):
            if d == 0:
                acc.append((list(o.pc), o.state))
        else:
            acc.append((list(o.pc) + [d == 0], o.state))
    return acc


def member_clauses(ctx, sb, shape, tag, msgterm):
    """(name, description, z3 clause) for one proof of the given shape whose variables carry `tag`"""
    V = sb.vars
    P = "proof" + tag
    idx = [[V["%s.signatures[%d].sig.concatenation_signature.indexes[%d]" % (P, i, j)] for j in range(n)] for i, n in enumerate(shape)]
    sigma = [V["%s.signatures[%d].sig.concatenation_signature.sigma" % (P, i)] for i in range(len(shape))]
    vk = [V["%s.signatures[%d].reg_party.verification_key_for_concatenation" % (P, i)] for i in range(len(shape))]
    stake = [V["%s.signatures[%d].reg_party.stake" % (P, i)] for i in range(len(shape))]
    com, total = V["avk%s.mt_commitment" % tag], V["avk%s.total_stake" % tag]
    m, k, phi = V["params%s.m" % tag], V["params%s.k" % tag], V["params%s.phi_f" % tag]
    bp = V["%s.batch_proof" % P]
    allidx = [x for row in idx for x in row]
    msgp = ctx.CONCAT(com, msgterm)
    flat = []
    for i in range(len(shape)):
        flat += [vk[i], stake[i]]
    clauses = [
        ("quorum", "number of claimed indices >= k", z3.IntVal(len(allidx)) >= k),
        ("distinct", "claimed indices pairwise distinct", z3.Distinct(allidx) if len(allidx) > 1 else z3.BoolVal(True)),
        ("index_below_m", "every index lies in [0, m)", z3.And([x < m for x in allidx]) if allidx else z3.BoolVal(True)),
        ("index_won_by_own_signature_and_stake", "every index was won: lottery(phi_f, dense_mapping(own sigma, msg||commitment, index), own registered stake, avk total stake)",
         z3.And([ctx.WON(phi, ctx.EV(sigma[i], msgp, x), stake[i], total) for i, row in enumerate(idx) for x in row]) if allidx else z3.BoolVal(True)),
        ("leaves_committed", "the Merkle batch check accepted exactly the (vk, stake) leaves of the signatures, in order, with the proof's path, against the AVK commitment",
         ctx.ufun("batch_membership", 2 + len(flat))(com, bp, *flat)),
    ]
    return clauses, dict(idx=idx, sigma=sigma, vk=vk, stake=stake, com=com, total=total, m=m, k=k, phi=phi, bp=bp, msgp=msgp)


def bls_batch_body(rep, prog, tmo, failures):
    """BlsSignature::batch_verify_aggregates itself (the batch pairing oracle of the runs above): the one blst aggregate_verify call it
    ends with must cover every member of the batch — messages and keys in input order, the signature aggregated from all members'"""
    from mir2smt import container_models as CM2
    from mir2smt import models as MM2
    I = MI.Interp(prog, models=[None, CM2.btreeset_models, CM2.map_models, CM2.container_models, MM2.hof_models, MM2.abs_models, MM2.core_models], unroll=8)
    I.enum_tables.update(MM2.ENUM_TABLE_EXTRA)
    I.enum_tables["BLST_ERROR"] = {"BLST_SUCCESS": 0, "BLST_BAD_ENCODING": 1, "BLST_POINT_NOT_ON_CURVE": 2, "BLST_POINT_NOT_IN_GROUP": 3, "BLST_AGGR_TYPE_MISMATCH": 4,
                                   "BLST_VERIFY_FAIL": 5, "BLST_PK_IS_INFINITY": 6, "BLST_BAD_SCALAR": 7}
    events = {}

    def models(I, st, caller, func, args, argtys, dest_ty):
        f = MM2.strip_std_paths(func)
        if re.search(r"AggregateSignature::aggregate$", f):
            lst, _ = CM2.seq_of(I, st, args[0])
            terms = [MM2.deref_all(I, st, x) for x in lst.fields]
            terms = [t.term if isinstance(t, Abs) else [y for y in t.fields if isinstance(y, Abs)][0].term for t in terms]
            st.trace = st.trace + (("aggregate", tuple(terms), None),)
            fn = z3.Function("blst_aggregate_%d" % len(terms), *([z3.IntSort()] * (len(terms) + 1))) if terms else None
            val = fn(*terms) if terms else z3.IntVal(-1)
            okv = z3.Bool("blst_aggregate_ok_%d" % len(terms))
            return MM2.ret(st, EnumV("Result", z3.If(okv, 0, 1), {0: (Abs("blstagg", val),), 1: (EnumV("BLST_ERROR", 1, {}),)}))
        if re.search(r"Signature::from_aggregate$|AggregateSignature::to_signature$|to_blst_verification_key$", f):
            v = MM2.deref_all(I, st, args[0])
            if isinstance(v, Agg) and v.kind == "adt":
                v = [y for y in v.fields if isinstance(y, Abs)][0]
            return MM2.ret(st, v)
        if re.search(r"Signature::aggregate_verify$", f):
            msgs, _ = CM2.seq_of(I, st, args[2])
            vks, _ = CM2.seq_of(I, st, args[4])
            sig = MM2.deref_all(I, st, args[0])
            mt = [MM2.deref_all(I, st, x).term for x in msgs.fields]
            vt = [MM2.deref_all(I, st, x).term for x in vks.fields]
            st.trace = st.trace + (("aggregate_verify", (sig.term, tuple(mt), tuple(vt)), None),)
            d = z3.Int("blst_aggregate_verify_verdict")
            st.assume(z3.And(d >= 0, d <= 7))
            return MM2.ret(st, EnumV("BLST_ERROR", d, {}))
        if re.search(r"blst_error_to_stm_error$", f):
            e = MM2.deref_all(I, st, args[0])
            d = e.discr if z3.is_expr(e.discr) else z3.IntVal(e.discr)
            return MM2.ret(st, EnumV("Result", z3.If(d == 0, 0, 1), {0: (MI.UNIT,), 1: (Opaque("anyhow::Error"),)}))
        if re.search(r"Vec::<u8>::as_slice$|<Vec<u8> as Deref>::deref$", f):
            return MM2.ret(st, MM2.deref_all(I, st, args[0]))
        if re.match(r"^<(.*) as (Ord|PartialOrd|PartialEq)>::(cmp|partial_cmp|eq|ne|lt|le|gt|ge)$", f) and len(args) == 2:
            a, b = MM2.deref_all(I, st, args[0]), MM2.deref_all(I, st, args[1])
            if isinstance(a, Abs) and isinstance(b, Abs):
                op = f.split("::")[-1]
                if op == "cmp":
                    return MM2.ret(st, MM2.ordering(a.term, b.term))
                if op == "partial_cmp":
                    return MM2.ret(st, MM2.mk_option(True, MM2.ordering(a.term, b.term)))
                return MM2.ret(st, {"eq": a.term == b.term, "ne": a.term != b.term, "lt": a.term < b.term, "le": a.term <= b.term, "gt": a.term > b.term, "ge": a.term >= b.term}[op])
        if re.match(r"^<.* as (Clone|ToOwned|Copy)>::(clone|to_owned)$", f):
            return MM2.ret(st, MM2.deref_all(I, st, args[0]))
        return None
    I.models[0] = models
    f = prog.find_one(r"bls_multi_signature/signature\.rs.*>::batch_verify_aggregates$")
    for n in (2, 3):
        msgs = [Abs("bytes", z3.Int("batch_msg_%d" % i)) for i in range(n)]
        vks = [Agg("adt", "BlsVerificationKey", (Abs("blstvk", z3.Int("batch_vk_%d" % i)),)) for i in range(n)]
        sigs = [Agg("adt", "BlsSignature", (Abs("blstsig", z3.Int("batch_sig_%d" % i)),)) for i in range(n)]
        st = MI.State()
        fr = I.frame_counter + 1
        I.frame_counter += 3
        st.mem[(fr, 0)] = Agg("vec", None, tuple(msgs))
        st.mem[(fr + 1, 0)] = Agg("vec", None, tuple(vks))
        st.mem[(fr + 2, 0)] = Agg("vec", None, tuple(sigs))
        outs = I.call_fn(f, [Ref(fr, 0, ()), Ref(fr + 1, 0, ()), Ref(fr + 2, 0, ())], st)
        bad = []
        nacc = 0
        for o in outs:
            if o.kind != "return":
                raise Unencodable("batch_verify_aggregates: %s %s" % (o.kind, o.msg))
            d = o.value.discr
            okc = (d == 0) if z3.is_expr(d) else z3.BoolVal(d == 0)
            av = [e for e in o.state.trace if e[0] == "aggregate_verify"]
            ag = [e for e in o.state.trace if e[0] == "aggregate"]
            if not av or not ag:
                bad.append(z3.And(list(o.pc) + [okc]))
                continue
            nacc += 1
            sig_t, mt, vt = av[-1][1]
            cov = z3.BoolVal(len(mt) == n and len(vt) == n and len(ag[-1][1]) == n)
            if len(mt) == n and len(vt) == n and len(ag[-1][1]) == n:
                cov = z3.And([mt[i] == msgs[i].term for i in range(n)] + [vt[i] == vks[i].fields[0].term for i in range(n)] + [ag[-1][1][i] == sigs[i].fields[0].term for i in range(n)])
            bad.append(z3.And(list(o.pc) + [okc, z3.Not(cov)]))
        ob = rep.add(core.Obligation("c01_bls_batch_body_covers_every_member_n%d" % n, "smt",
                                     "BlsSignature::batch_verify_aggregates on %d members (messages, keys, signatures arbitrary, possibly equal) returns Ok only after one blst aggregate_verify over ALL %d messages and keys in input order with the signature aggregated from ALL %d signatures" % (n, n, n),
                                     {"paths": len(outs), "vccs": nacc}))
        r = smt.check([z3.Or(bad)] if bad else [z3.BoolVal(False)], timeout_s=tmo)
        ob.solver_s = r.seconds
        ob.status = "discharged" if r.status == "unsat" else "failed" if r.status == "sat" else "inconclusive"
        if nacc == 0:
            ob.status = "inconclusive"
            rep.inconcl("batch_verify_aggregates: no path reaches the pairing")
        if r.status == "sat":
            ob.counterexample = {"messages_equal": [str(r.model.eval(msgs[i].term == msgs[j].term, model_completion=True)) for i in range(n) for j in range(i + 1, n)]}
            failures.append(("bls_batch_body", (n,), ob, r.model, {}))
        elif r.status != "unsat":
            rep.inconcl("%s: %s" % (ob.name, r.reason))
    rep.functions += sorted("%s -> %s" % (k_, v) for k_, v in I.calls_seen.items() if v.startswith("mir:"))


def run(tier, seed):
    rep = core.Report("C01", tier, seed)
    rep.trusted_base = ["rustc nightly MIR", "mir2smt interpreter + container/closure/oracle call models", "z3, cvc5 cross-check"]
    rep.functions = ["source hashes: %s" % core.source_hashes(SRC)]
    rep.assumptions = [
        "keys, signatures, Merkle paths, commitments, messages: elements of uninterpreted sorts",
        "oracles (deterministic uninterpreted functions of their arguments): BlsSignature::evaluate_dense_mapping, is_lottery_won (C08), "
        "MerkleTreeBatchCommitment::verify_leaves_membership_from_batch_path (C09), concatenate_with_message, BlsSignature::{verify_aggregate, aggregate, batch_verify_aggregates}",
        "Vec / HashSet / iterator adaptors follow their std contract (mir2smt/container_models.py); Clone returns an equal value",
        "proof shape (number of signatures, indices per signature) is enumerated; every in-memory value of that shape is covered, which is a superset of what any decoder can output",
        "default cargo features (Concatenation proof system only)",
    ]
    rep.outside = ["BLS algebra (in particular soundness of summing per-certificate aggregates in batch_verify_aggregates), Blake2b, the Merkle check itself (C09), the lottery (C08), decoders (C05)",
                   "more than 3 signatures / 4 indices / batch of 2", "AggregateSignature::verify's dispatch and ancillary data (one variant under default features)"]
    rep.solver_vars = ["m, k, every claimed index, every claimed stake, total stake: all of u64", "phi_f: any f64", "identity of every key / signature / path / message",
                       "every oracle verdict"]
    try:
        path, dt = mir.dump("mithril-stm")
    except Exception as e:
        rep.inconcl("MIR dump failed: %s" % e)
        return rep.finish()
    prog = MI.Program(open(path).read(), source_root=os.path.join(core.REPO, "mithril-stm"))
    shapes = QUICK_SHAPES if tier == "quick" else THOROUGH_SHAPES
    rep.enumerated = ["proof shapes (indices per signature): %s" % (shapes,), "batch shapes: %s" % ([((1,), (1,)), ((2,), (1,))] if tier == "quick" else [((1,), (1,)), ((2,), (1,)), ((1, 1), (2,))],)]
    rep.bounds = {"max_signatures": max(len(s) for s in shapes), "max_indices": max(sum(s) for s in shapes), "batch": 2, "loop_unroll": 8}
    tmo = 60 if tier == "quick" else 300
    failures = []
    ctx = None
    try:
        for shape in shapes:
            ctx = Ctx(prog)
            sb, proof, avk, params, msg, outs = ctx.run_verify(shape)
            acc = accepted_outcomes(outs, rep, "verify%s" % (shape,))
            sname = "x".join(str(n) for n in shape)
            if not acc:
                ob = rep.add(core.Obligation("c01_verify_%s_never_accepts" % sname, "smt", "shape %s: no accepting path at all (e.g. no indices)" % (shape,)))
                ob.status = "discharged"
                continue
            accept = z3.Or([z3.And(pc) for pc, _ in acc])
            clauses, T = member_clauses(ctx, sb, shape, "", msg.term)
            nv = len(shape)
            flat_agg = T["vk"] + T["sigma"]
            clauses.append(("bls_aggregate_check", "the pairing oracle accepted exactly these (vk, sigma) pairs for msg||commitment",
                            ctx.ufun("bls_verify_aggregate_%d" % nv, 1 + len(flat_agg))(T["msgp"], *flat_agg)))
            for name, desc, clause in clauses:
                ob = rep.add(core.Obligation("c01_verify_%s_%s" % (sname, name), "smt", "shape %s: accept => %s" % (shape, desc), {"vccs": len(acc)}))
                r = smt.check([accept, z3.Not(clause)], timeout_s=tmo, cross=True)
                ob.solver_s = r.seconds
                if r.status == "unsat":
                    ob.status = "discharged"
                elif r.status == "sat":
                    ob.status = "failed"
                    md = smt.model_to_dict(r.model)
                    ob.counterexample = {k_: v for k_, v in md.items() if "indexes" in k_ or k_ in ("params.m", "params.k")}
                    failures.append((name, shape, ob, r.model, T))
                else:
                    ob.status = "inconclusive"
                    rep.inconcl("%s: %s" % (ob.name, r.reason))
            ob = rep.add(core.Obligation("c01_verify_%s_witness" % sname, "smt", "witness: some proof of shape %s is accepted" % (shape,)))
            r = smt.check([accept], timeout_s=tmo)
            ob.status = "discharged" if r.status == "sat" else "inconclusive"
            if r.status != "sat":
                rep.inconcl("no accepted proof of shape %s (vacuous)" % (shape,))
        # ---- batch ----------------------------------------------------------------------------------------------
        bshapes = [((1,), (1,)), ((2,), (1,))] if tier == "quick" else [((1,), (1,)), ((2,), (1,)), ((1, 1), (2,))]
        for bs in bshapes:
            ctx = Ctx(prog)
            members = []
            for bi, shape in enumerate(bs):
                members.append(ctx.make_inputs(shape, tag="_b%d" % bi) + (shape,))
            f = prog.find_one(r"proof\.rs.*>::batch_verify$", nparams=4)
            st = MI.State()
            for mb in members:
                for c in mb[0].constraints:
                    st.assume(c)
            fr = ctx.I.frame_counter + 1
            ctx.I.frame_counter += 4
            st.mem[(fr, 0)] = Agg("vec", None, [mb[1] for mb in members])
            st.mem[(fr + 1, 0)] = Agg("vec", None, [mb[4] for mb in members])
            st.mem[(fr + 2, 0)] = Agg("vec", None, [mb[2] for mb in members])
            st.mem[(fr + 3, 0)] = Agg("vec", None, [mb[3] for mb in members])
            outs = ctx.I.call_fn(f, [Ref(fr, 0, ()), Ref(fr + 1, 0, ()), Ref(fr + 2, 0, ()), Ref(fr + 3, 0, ())], st)
            acc = accepted_outcomes(outs, rep, "batch_verify%s" % (bs,))
            bname = "_".join("x".join(str(n) for n in s) for s in bs)
            if not acc:
                rep.inconcl("batch %s: no accepting path (vacuous)" % (bs,))
                continue
            accept = z3.Or([z3.And(pc) for pc, _ in acc])
            batch_flat_msgs, batch_flat_vks, batch_flat_sigs = [], [], []
            for bi, mb in enumerate(members):
                sb, proof, avk, params, msg, shape = mb
                clauses, T = member_clauses(ctx, sb, shape, "_b%d" % bi, msg.term)
                for name, desc, clause in clauses:
                    ob = rep.add(core.Obligation("c01_batch_%s_member%d_%s" % (bname, bi, name), "smt", "batch %s accepted => member %d: %s (with its own message, AVK and parameters)" % (bs, bi, desc)))
                    r = smt.check([accept, z3.Not(clause)], timeout_s=tmo, cross=True)
                    ob.solver_s = r.seconds
                    if r.status == "unsat":
                        ob.status = "discharged"
                    elif r.status == "sat":
                        ob.status = "failed"
                        failures.append((name, shape, ob, r.model, T))
                    else:
                        ob.status = "inconclusive"
                        rep.inconcl("%s: %s" % (ob.name, r.reason))
                n = len(shape)
                fl = T["vk"] + T["sigma"]
                batch_flat_msgs.append(T["msgp"])
                batch_flat_vks.append(ctx.ufun("bls_aggregate_vk_%d" % n, len(fl), z3.IntSort())(*fl))
                batch_flat_sigs.append(ctx.ufun("bls_aggregate_sig_%d" % n, len(fl), z3.IntSort())(*fl))
            allf = batch_flat_msgs + batch_flat_vks + batch_flat_sigs
            ob = rep.add(core.Obligation("c01_batch_%s_pairing" % bname, "smt", "batch accepted => the batch pairing oracle accepted (msg_i||commitment_i, aggregate(vks_i, sigmas_i)) for every member, in order"))
            r = smt.check([accept, z3.Not(ctx.ufun("bls_batch_verify_%d" % len(bs), len(allf))(*allf))], timeout_s=tmo, cross=True)
            ob.solver_s = r.seconds
            ob.status = "discharged" if r.status == "unsat" else "failed" if r.status == "sat" else "inconclusive"
            if r.status == "sat":
                failures.append(("batch_pairing", bs, ob, r.model, {}))
    except Unencodable as e:
        rep.inconcl("unencodable: %s" % e)
    try:
        bls_batch_body(rep, prog, tmo, failures)
    except Unencodable as e:
        rep.inconcl("unencodable (batch_verify_aggregates): %s" % e)
    if ctx is not None:
        rep.functions += sorted("%s -> %s" % (k_, v) for k_, v in ctx.I.calls_seen.items())
    # ---- replay -------------------------------------------------------------------------------------------------
    seen_roles = {}
    k = 0
    for name, shape, ob, model, T in failures:
        role = "c01-" + name
        if name == "index_below_m" and model is not None:
            mval = model.eval(T["m"], model_completion=True).as_long()
            ivals = [model.eval(x, model_completion=True).as_long() for row in T["idx"] for x in row]
            if any(v == mval for v in ivals) and not any(v > mval for v in ivals):
                role = "c01-index-equal-m"
        ob.role = role
        if role in seen_roles:
            continue
        k += 1
        native = {}
        reproduced = False
        try:
            scen = {"bls_batch_body": "batch_same_message", "index_below_m": "index_at_m", "distinct": "cross_dup", "quorum": "cross_dup", "leaves_committed": "uncommitted_leaf",
                    "index_won_by_own_signature_and_stake": "uncommitted_leaf", "batch_pairing": "batch_swap", "bls_aggregate_check": "batch_swap"}.get(name)
            if scen:
                # run the whole battery of forged aggregates through the public API: any acceptance is a native reproduction
                for q in ("index_at_m", "cross_dup", "uncommitted_leaf", "batch_swap", "after_quorum", "batch_same_message"):
                    native[q] = native_stm(q)
                if scen in ("batch_same_message", "after_quorum"):
                    reproduced = "VIOLATED" in native[scen]
                else:
                    reproduced = "accepted" in native[scen].replace("alone=accepted", "") or "VIOLATED" in native["after_quorum"] or (name.startswith("batch") and "VIOLATED" in native["batch_same_message"])
                if name == "index_won_by_own_signature_and_stake" and not reproduced:
                    native["lost_index"] = native_stm("lost_index")
                    reproduced = "VIOLATED" in native["lost_index"]
            else:
                native["note"] = "no native scenario for this clause; structural counterexample only"
        except Exception as e:
            native["error"] = str(e)
        md = smt.model_to_dict(model) if model is not None else {}
        path = core.write_replay("C01", k, {"property": "C01", "role": role, "obligation": ob.name, "shape": shape,
                                            "model": {a: b for a, b in md.items() if len(str(b)) < 60 and ("index" in a or "params" in a or "stake" in a)},
                                            "native_replay": native})
        seen_roles[role] = path
        rep.violation(role, "shape %s: clause %s fails (%s); native: %s" % (shape, name, ob.counterexample, native), path, reproduced)
        if reproduced:
            rep.traces_validated += 1
    return rep.finish()
