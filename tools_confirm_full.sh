#!/bin/bash
# usage: tools_confirm_full.sh <worktree> <patch>...   — with each patch applied: all mithril-stm tests + mithril-common lib tests must pass
wt=$1; shift
export CARGO_TARGET_DIR=$wt/target CARGO_NET_OFFLINE=true
cd $wt || exit 9
for patch in "$@"; do
  git checkout -q -- . ; git clean -fdq mithril-stm/tests 2>/dev/null
  git apply $patch || { echo "PATCH DOES NOT APPLY $patch"; continue; }
  echo "##### $patch"
  cargo test -q --offline -p mithril-stm 2>&1 | grep -E "^test result|error\[|error:|FAILED|failed" | head -8
  cargo test -q --offline -p mithril-common --lib 2>&1 | grep -E "^test result|error\[|error:|FAILED|failed" | head -8
  git checkout -q -- .
done
