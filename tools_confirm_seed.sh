#!/bin/bash
# usage: tools_confirm_seed.sh <worktree> <patch> <demo.rs> <demo dest rel path> <crate> <demo test name> <lib test filter...>
# Confirms in a scratch worktree: (1) with the patch the crate's existing tests pass, (2) the demo fails with the patch, (3) passes without.
wt=$1; patch=$2; demo=$3; dest=$4; crate=$5; tname=$6; shift 6
export CARGO_TARGET_DIR=$wt/target CARGO_NET_OFFLINE=true
cd $wt || exit 9
git checkout -q -- . ; mkdir -p $(dirname $dest); cp $demo $dest
echo "== clean tree: demo"; cargo test -q --offline -p $crate --test $tname 2>&1 | grep -E "^test result|error\[|error:" | head -3
git apply $patch || { echo "PATCH DOES NOT APPLY"; exit 3; }
echo "== patched: demo (must fail)"; cargo test -q --offline -p $crate --test $tname 2>&1 | grep -E "^test result|error\[|error:" | head -3
echo "== patched: existing tests (must pass)"; cargo test -q --offline -p $crate --lib "$@" 2>&1 | grep -E "^test result|error\[|error:" | head -3
git checkout -q -- . ; rm -f $dest
