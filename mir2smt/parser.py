"""Parser for rustc's `-Zunpretty=mir` text (nightly 1.97).  Produces Fn objects with basic blocks.

Only the syntax is handled here; semantics live in interp.py.  Anything the parser does not
understand is kept as ('raw', text) so that the interpreter can refuse it (Unencodable) only when a
path actually reaches it.
"""
import re

BINOPS = {"Add", "Sub", "Mul", "Div", "Rem", "BitXor", "BitAnd", "BitOr", "Shl", "Shr", "Eq", "Lt", "Le", "Ne", "Ge", "Gt",
          "Cmp", "Offset", "AddWithOverflow", "SubWithOverflow", "MulWithOverflow", "AddUnchecked", "SubUnchecked",
          "MulUnchecked", "ShlUnchecked", "ShrUnchecked"}
UNOPS = {"Not", "Neg", "PtrMetadata"}


class ParseError(Exception):
    pass


def split_top(s, sep, maxsplit=-1):
    """Split s on sep at nesting depth 0 (w.r.t. () [] {} <> and string literals)."""
    out = []
    depth = 0
    i = 0
    start = 0
    n = len(s)
    L = len(sep)
    instr = False
    while i < n:
        c = s[i]
        if instr:
            if c == "\\":
                i += 2
                continue
            if c == '"':
                instr = False
            i += 1
            continue
        if c == '"':
            instr = True
            i += 1
            continue
        if c in "([{":
            depth += 1
        elif c in ")]}":
            depth -= 1
        elif c == "<":
            # generic bracket unless it is a comparison-like token (MIR has none at this level) or "<=" / "<<"
            depth += 1
        elif c == ">":
            if i > 0 and s[i - 1] in "-=":
                pass  # -> or =>
            else:
                depth -= 1
        if depth == 0 and s.startswith(sep, i) and (maxsplit < 0 or len(out) < maxsplit):
            out.append(s[start:i])
            i += L
            start = i
            continue
        i += 1
    out.append(s[start:])
    return out


def find_matching(s, i):
    """s[i] is an opening bracket; return index of its match."""
    pairs = {"(": ")", "[": "]", "{": "}", "<": ">"}
    o = s[i]
    c = pairs[o]
    depth = 0
    instr = False
    j = i
    while j < len(s):
        ch = s[j]
        if instr:
            if ch == "\\":
                j += 2
                continue
            if ch == '"':
                instr = False
        elif ch == '"':
            instr = True
        elif ch == o:
            depth += 1
        elif ch == c:
            if not (c == ">" and j > 0 and s[j - 1] in "-="):
                depth -= 1
                if depth == 0:
                    return j
        j += 1
    raise ParseError("unbalanced: " + s[i:i + 60])


def rfind_top(s, sep):
    parts = split_top(s, sep)
    if len(parts) < 2:
        return -1
    return len(s) - len(parts[-1]) - len(sep)


def parse_place(s):
    """Returns (local:int, [projections])"""
    s = s.strip()
    if re.fullmatch(r"_\d+", s):
        return (int(s[1:]), [])
    if s.endswith("]"):
        # index projection: find matching '['
        depth = 0
        for i in range(len(s) - 1, -1, -1):
            if s[i] == "]":
                depth += 1
            elif s[i] == "[":
                depth -= 1
                if depth == 0:
                    break
        base = parse_place(s[:i])
        idx = s[i + 1:-1].strip()
        if re.fullmatch(r"_\d+", idx):
            return (base[0], base[1] + [("index", int(idx[1:]))])
        m = re.fullmatch(r"(-?\d+) of (\d+)", idx)
        if m:
            k = int(m.group(1))
            return (base[0], base[1] + [("constindex", k, int(m.group(2)))])
        return (base[0], base[1] + [("rawindex", idx)])
    if s.startswith("(") and find_matching(s, 0) == len(s) - 1:
        inner = s[1:-1].strip()
        if inner.startswith("*"):
            b = parse_place(inner[1:])
            return (b[0], b[1] + [("deref",)])
        k = rfind_top(inner, ": ")
        if k >= 0:
            left, ty = inner[:k], inner[k + 2:]
            d = left.rfind(".")
            base = parse_place(left[:d])
            return (base[0], base[1] + [("field", int(left[d + 1:]), ty.strip())])
        k = rfind_top(inner, " as ")
        if k >= 0:
            base = parse_place(inner[:k])
            return (base[0], base[1] + [("downcast", inner[k + 4:].strip())])
        return parse_place(inner)
    if s.startswith("*"):
        b = parse_place(s[1:])
        return (b[0], b[1] + [("deref",)])
    raise ParseError("place: " + s)


def parse_operand(s):
    s = s.strip()
    if s.startswith("copy "):
        return ("copy", parse_place(s[5:]))
    if s.startswith("move "):
        return ("move", parse_place(s[5:]))
    if s.startswith("const "):
        return ("const", s[6:].strip())
    if s.startswith("no_retag "):
        return parse_operand(s[9:])
    if re.match(r"^[A-Za-z_<{]", s) and not re.match(r"^_\d", s):
        return ("const", s)  # bare fn item / unit ctor used as a value
    raise ParseError("operand: " + s)


def is_operand_text(s):
    return s.startswith(("copy ", "move ", "const ", "no_retag "))


def parse_rvalue(s):
    s = s.strip()
    if is_operand_text(s):
        k = rfind_top(s, " as ")
        if k >= 0 and s.endswith(")"):
            # cast: <operand> as <type> (<kind>)
            rest = s[k + 4:]
            p = rest.rfind(" (")
            # kind is the last parenthesised group
            j = len(rest) - 1
            depth = 0
            for i in range(len(rest) - 1, -1, -1):
                if rest[i] == ")":
                    depth += 1
                elif rest[i] == "(":
                    depth -= 1
                    if depth == 0:
                        p = i
                        break
            ty = rest[:p].strip()
            kind = rest[p + 1:-1]
            try:
                return ("cast", parse_operand(s[:k]), ty, kind)
            except ParseError:
                pass
        return ("use", parse_operand(s))
    if s.startswith("&"):
        t = s[1:].lstrip()
        kind = "shared"
        for pre, kk in (("raw const ", "rawconst"), ("raw mut ", "rawmut"), ("mut ", "mut"), ("fake shallow ", "fake"), ("fake ", "fake")):
            if t.startswith(pre):
                t = t[len(pre):]
                kind = kk
                break
        return ("ref", kind, parse_place(t))
    m = re.match(r"^([A-Za-z]+)\((.*)\)$", s)
    if m and m.group(1) in BINOPS:
        a, b = split_top(m.group(2), ", ")
        return ("binop", m.group(1), parse_operand(a), parse_operand(b))
    if m and m.group(1) in UNOPS:
        return ("unop", m.group(1), parse_operand(m.group(2)))
    if m and m.group(1) == "discriminant":
        return ("discriminant", parse_place(m.group(2)))
    if m and m.group(1) == "Len":
        return ("len", parse_place(m.group(2)))
    if m and m.group(1) == "CopyForDeref":
        return ("use", ("copy", parse_place(m.group(2))))
    if s.startswith("[") and s.endswith("]"):
        inner = s[1:-1]
        parts = split_top(inner, "; ")
        if len(parts) == 2:
            return ("repeat", parse_operand(parts[0]), parts[1].strip())
        ops = [parse_operand(x) for x in split_top(inner, ", ")] if inner.strip() else []
        return ("aggregate", "array", None, ops)
    if s.startswith("(") and s.endswith(")") and find_matching(s, 0) == len(s) - 1:
        inner = s[1:-1]
        if not inner.strip():
            return ("aggregate", "tuple", None, [])
        if inner.rstrip().endswith(","):
            inner = inner.rstrip()[:-1]
        parts = split_top(inner, ", ")
        parts = [p for p in parts if p.strip()]
        return ("aggregate", "tuple", None, [parse_operand(x) for x in parts])
    # ADT aggregates: Path(args) | Path { f: a, .. } | Path
    if s.endswith("}") and " { " in s or s.endswith("{ }") or s.endswith("{}"):
        # find top-level " {"
        k = rfind_top(s, " {")
        if k >= 0:
            name = s[:k].strip()
            inner = s[k + 2:-1].strip()
            ops = []
            fields = []
            if inner:
                for part in split_top(inner, ", "):
                    part = part.strip()
                    if not part:
                        continue
                    fn, val = split_top(part, ": ", 1)
                    fields.append(fn.strip())
                    ops.append(parse_operand(val))
            return ("aggregate", "adt", name, ops, fields)
    if s.endswith(")"):
        # Path(args): find the opening paren matching the last ')'
        depth = 0
        for i in range(len(s) - 1, -1, -1):
            if s[i] == ")":
                depth += 1
            elif s[i] == "(":
                depth -= 1
                if depth == 0:
                    break
        name = s[:i].strip()
        inner = s[i + 1:-1]
        if name and not name.startswith(("copy", "move")):
            try:
                ops = [parse_operand(x) for x in split_top(inner, ", ") if x.strip()]
                return ("aggregate", "adt", name, ops, None)
            except ParseError:
                pass
    if re.match(r"^[A-Za-z_<{]", s) and "(" not in s.split("::")[-1]:
        return ("aggregate", "adt", s, [], None)
    return ("raw", s)


class Block:
    def __init__(self, name, cleanup=False):
        self.name = name
        self.stmts = []
        self.term = None
        self.cleanup = cleanup


class Fn:
    def __init__(self, kind, name, header):
        self.kind = kind  # fn | const | static
        self.name = name  # full name text up to the parameter list
        self.header = header
        self.params = []  # [(local, type)]
        self.ret = None
        self.locals = {}  # n -> type
        self.debug = {}  # name -> place text
        self.blocks = {}
        self.first_line = 0

    def __repr__(self):
        return "<Fn %s/%d>" % (self.name, len(self.params))


def parse_stmt(line):
    line = line.strip()
    if line.endswith(";"):
        line = line[:-1]
    if line.startswith(("StorageLive(", "StorageDead(", "FakeRead(", "PlaceMention(", "AscribeUserType(", "Coverage::",
                        "ConstEvalCounter", "nop", "Retag(", "BackwardIncompatibleDropHint(")):
        return ("nop",)
    if line.startswith("assume("):
        return ("assume", line[7:-1])
    if line.startswith("Deinit("):
        return ("nop",)
    m = re.match(r"^discriminant\((.*)\) = (\d+)$", line)
    if m:
        return ("setdiscr", parse_place(m.group(1)), int(m.group(2)))
    parts = split_top(line, " = ", 1)
    if len(parts) == 2:
        try:
            return ("assign", parse_place(parts[0]), parse_rvalue(parts[1]))
        except ParseError as e:
            return ("rawstmt", line, str(e))
    return ("rawstmt", line, "no '='")


def parse_targets(t):
    """'[return: bb1, unwind continue]' -> dict"""
    t = t.strip()
    res = {}
    if t.startswith("["):
        for part in split_top(t[1:-1], ", "):
            part = part.strip()
            if ": " in part:
                k, v = part.split(": ", 1)
                res[k.strip()] = v.strip()
            else:
                res[part] = True
    else:
        res[t] = True
    return res


def parse_term(line):
    line = line.strip()
    if line.endswith(";"):
        line = line[:-1]
    if line == "return":
        return ("return",)
    if line in ("unreachable", "resume", "abort", "terminate", "resume"):
        return ("unreachable",) if line == "unreachable" else ("resume",)
    m = re.match(r"^goto -> (bb\d+)$", line)
    if m:
        return ("goto", m.group(1))
    if line.startswith("switchInt("):
        j = find_matching(line, len("switchInt"))
        op = parse_operand(line[len("switchInt("):j])
        tg = line[j + 1:].strip()
        assert tg.startswith("-> ")
        arms = []
        other = None
        for part in split_top(tg[3:].strip()[1:-1], ", "):
            k, v = part.strip().split(": ")
            if k == "otherwise":
                other = v
            else:
                arms.append((int(k), v))
        return ("switch", op, arms, other)
    if line.startswith("assert("):
        j = find_matching(line, len("assert"))
        inner = line[len("assert("):j]
        parts = split_top(inner, ", ")
        cond = parts[0].strip()
        neg = False
        if cond.startswith("!"):
            neg = True
            cond = cond[1:]
        msg = ", ".join(parts[1:])
        tg = parse_targets(line[j + 1:].strip()[3:])
        return ("assert", parse_operand(cond), neg, msg, tg.get("success"))
    if line.startswith("drop("):
        j = find_matching(line, len("drop"))
        pl = parse_place(line[5:j])
        tg = parse_targets(line[j + 1:].strip()[3:])
        return ("drop", pl, tg.get("return"))
    if line.startswith("falseEdge") or line.startswith("falseUnwind"):
        m = re.search(r"real: (bb\d+)", line)
        return ("goto", m.group(1))
    # call:  dest = func(args) -> [return: bbN, unwind ...]   |  dest = func(args) -> unwind continue
    parts = split_top(line, " -> ")
    if len(parts) >= 2:
        call = " -> ".join(parts[:-1])
        tg = parse_targets(parts[-1])
        lhs_rhs = split_top(call, " = ", 1)
        if len(lhs_rhs) == 2:
            dest = parse_place(lhs_rhs[0])
            rhs = lhs_rhs[1].strip()
        else:
            dest = None
            rhs = call.strip()
        if rhs.endswith(")"):
            depth = 0
            for i in range(len(rhs) - 1, -1, -1):
                if rhs[i] == ")":
                    depth += 1
                elif rhs[i] == "(":
                    depth -= 1
                    if depth == 0:
                        break
            func = rhs[:i].strip()
            argtxt = rhs[i + 1:-1]
            args = [parse_operand(a) for a in split_top(argtxt, ", ") if a.strip()]
            return ("call", dest, func, args, tg.get("return"))
    return ("rawterm", line)


FN_HEAD = re.compile(r"^(fn|const|static|static mut) (.*) \{$")


SIMPLE_CONSTS = {}


def parse_mir(text):
    """Returns list of Fn."""
    fns = []
    lines = text.split("\n")
    for l in lines:
        if l.startswith(("const ", "static ")) and l.endswith(";") and " = const " in l:
            mm = re.match(r"^(?:const|static) (.*?): (.*?) = const (.*);$", l)
            if mm:
                SIMPLE_CONSTS[mm.group(1).split("::")[-1]] = (mm.group(1), mm.group(2), mm.group(3))
    i = 0
    n = len(lines)
    while i < n:
        line = lines[i]
        m = FN_HEAD.match(line) if line and line[0] in "fcs" else None
        if not m:
            i += 1
            continue
        kind, rest = m.group(1), m.group(2)
        f = None
        if kind == "fn":
            # name(params) -> ret
            k = None
            depth = 0
            # find first top-level '(' that starts the parameter list: it is the '(' matching the last top-level ')' before ' -> ' or end
            arrow = rfind_top(rest, " -> ")
            sig = rest if arrow < 0 else rest[:arrow]
            ret = "()" if arrow < 0 else rest[arrow + 4:]
            # parameter list = last parenthesised group of sig
            depth = 0
            for j in range(len(sig) - 1, -1, -1):
                if sig[j] == ")":
                    depth += 1
                elif sig[j] == "(":
                    depth -= 1
                    if depth == 0:
                        break
            name = sig[:j]
            f = Fn("fn", name, rest)
            ptxt = sig[j + 1:-1]
            for p in split_top(ptxt, ", "):
                p = p.strip()
                if not p:
                    continue
                mm = re.match(r"^_(\d+): (.*)$", p)
                if mm:
                    f.params.append((int(mm.group(1)), mm.group(2)))
                    f.locals[int(mm.group(1))] = mm.group(2)
            f.ret = ret.strip()
        else:
            # const NAME: TYPE = {
            if not rest.endswith(" ="):
                i += 1
                continue
            try:
                cparts = split_top(rest[:-2], ": ", 1)
            except Exception:
                cparts = []
            if len(cparts) != 2:
                i += 1
                continue
            f = Fn("const", cparts[0], rest)
            f.ret = cparts[1]
        f.first_line = i + 1
        i += 1
        cur = None
        while i < n and lines[i] != "}":
            l = lines[i].strip()
            i += 1
            if not l or l.startswith("//"):
                continue
            mm = re.match(r"^let (mut )?_(\d+): (.*);$", l)
            if mm:
                f.locals[int(mm.group(2))] = mm.group(3)
                continue
            mm = re.match(r"^debug (.*) => (.*);$", l)
            if mm:
                f.debug[mm.group(1)] = mm.group(2)
                continue
            mm = re.match(r"^(bb\d+)( \(cleanup\))?: \{$", l)
            if mm:
                cur = Block(mm.group(1), bool(mm.group(2)))
                f.blocks[cur.name] = cur
                continue
            if l.startswith("scope ") or l == "}":
                if l == "}" and cur is not None and cur.term is None and cur.stmts:
                    # block closed: last stmt is the terminator
                    pass
                if l == "}":
                    cur = None
                continue
            if cur is None:
                continue
            cur.stmts.append(l)
        # post-process blocks: last line is terminator
        for b in f.blocks.values():
            if not b.stmts:
                b.term = ("rawterm", "<empty>")
                continue
            term_line = b.stmts.pop()
            raw = b.stmts
            b.stmts = None
            b._raw = (raw, term_line)
        fns.append(f)
        i += 1
    return fns


def materialize(b):
    """Lazily parse statements of a block (the dump is large; only reached blocks are parsed)."""
    if b.stmts is None:
        raw, term_line = b._raw
        b.stmts = [parse_stmt(l) for l in raw]
        try:
            b.term = parse_term(term_line)
        except (ParseError, ValueError, AssertionError) as e:
            b.term = ("rawterm", term_line + "  # " + str(e))
    return b

