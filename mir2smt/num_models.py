"""Call models for num-bigint / num-rational / num-traits (exact arithmetic): BigInt = z3 Int, Ratio<BigInt> = z3 Real.
Exact rational arithmetic *is* real arithmetic restricted to rationals, so these are the precise semantics, not an
approximation.  Also: Range<usize> iteration, f64::abs."""
import re

import z3

from .interp import Agg, EnumV, Ref, Opaque, Outcome, Unencodable, UNIT
from .models import ret, panic, deref_all, strip_std_paths, mk_option


def R(v):
    if z3.is_expr(v) and v.sort() == z3.IntSort():
        return z3.ToReal(v)
    return v


def num_models(I, st, caller, func, args, argtys, dest_ty):
    f = strip_std_paths(func)
    f = f.replace("num_bigint::", "").replace("num_rational::", "").replace("num_traits::", "")
    vals = [deref_all(I, st, a) for a in args]
    if re.match(r"^<(Ratio<BigInt>|BigInt) as Clone>::clone$", f):
        return ret(st, vals[0])
    if f == "<Ratio<BigInt> as One>::one":
        return ret(st, z3.RealVal(1))
    if f == "<BigInt as One>::one":
        return ret(st, z3.IntVal(1))
    m = re.match(r"^<BigInt as From<([iu]\d+|usize)>>::from$", f)
    if m:
        return ret(st, vals[0])
    if f == "BigInt::pow":
        e = z3.simplify(vals[1])
        if not z3.is_int_value(e):
            raise Unencodable("BigInt::pow with symbolic exponent")
        b = z3.simplify(vals[0])
        if z3.is_int_value(b):
            return ret(st, z3.IntVal(b.as_long() ** e.as_long()))
        r = z3.IntVal(1)
        for _ in range(e.as_long()):
            r = r * vals[0]
        return ret(st, r)
    m = re.match(r"^<(Ratio<BigInt>|BigInt) as (Add|Sub|Mul|Div)(?:<(.*)>)?>::(add|sub|mul|div)$", f)
    if m:
        a, b = vals
        ratio = m.group(1).startswith("Ratio") or (m.group(3) or "").startswith("Ratio")
        if ratio:
            a, b = R(a), R(b)
        op = m.group(4)
        if op == "add":
            return ret(st, a + b)
        if op == "sub":
            return ret(st, a - b)
        if op == "mul":
            return ret(st, a * b)
        if ratio:
            outs = []
            if I.feasible(st, b == 0):
                s2 = st.fork()
                s2.assume(b == 0)
                outs.append(Outcome("panic", None, s2, "Ratio division by zero"))
            st.assume(b != 0)
            outs.append(Outcome("return", a / b, st))
            return outs
        raise Unencodable("BigInt integer division")
    m = re.match(r"^<(Ratio<BigInt>|BigInt) as (AddAssign|SubAssign|MulAssign)(?:<(.*)>)?>::(\w+)$", f)
    if m:
        cur = vals[0]
        b = vals[1]
        if m.group(1).startswith("Ratio"):
            cur, b = R(cur), R(b)
        nv = {"add_assign": cur + b, "sub_assign": cur - b, "mul_assign": cur * b}[m.group(4)]
        I.store(st, args[0], nv)
        return ret(st, UNIT)
    if re.match(r"^<Ratio<BigInt> as Signed>::abs$", f):
        a = R(vals[0])
        return ret(st, z3.If(a >= 0, a, -a))
    if re.match(r"^<(Ratio<BigInt>|BigInt) as Neg>::neg$", f):
        return ret(st, -vals[0])
    m = re.match(r"^<(Ratio<BigInt>|BigInt) as PartialOrd>::(lt|le|gt|ge)$", f)
    if m:
        a, b = vals
        if m.group(1).startswith("Ratio"):
            a, b = R(a), R(b)
        return ret(st, {"lt": a < b, "le": a <= b, "gt": a > b, "ge": a >= b}[m.group(2)])
    if re.match(r"^Ratio::<BigInt>::new_raw$", f):
        a, b = R(vals[0]), R(vals[1])
        st.trace = st.trace + (("Ratio::new_raw", (vals[0], vals[1]), None),)
        return ret(st, a / b)
    if re.match(r"^BigInt::from_bytes_le$", f):
        arr = vals[1]
        if isinstance(arr, Agg) and arr.kind == "bytes_le_int":
            return ret(st, arr.fields[0])
        raise Unencodable("BigInt::from_bytes_le on %r" % (arr,))
    # ---- iteration over a Range<usize> ----------------------------------------------------------
    if re.match(r"^<Range<(usize|u64|u32)> as IntoIterator>::into_iter$", f):
        return ret(st, vals[0])
    if re.match(r"^<Range<(usize|u64|u32)> as Iterator>::next$", f):
        rng = vals[0]
        start, end = rng.fields
        cond = z3.simplify(start < end)
        outs = []
        if I.feasible(st, cond):
            s2 = st.fork()
            s2.assume(cond)
            I.store(s2, args[0], Agg(rng.kind, rng.name, (z3.simplify(start + 1), end)))
            outs.append(Outcome("return", mk_option(True, start), s2))
        if I.feasible(st, z3.Not(cond)):
            s3 = st.fork()
            s3.assume(z3.Not(cond))
            outs.append(Outcome("return", mk_option(False), s3))
        return outs
    # ---- floats -----------------------------------------------------------------------------------
    if re.match(r"^core::f64::<impl f64>::abs$", f):
        return ret(st, z3.fpAbs(vals[0]))
    return None
