"""Untrusted byte buffers for Engine B (C05): a slice is (buffer id, offset, length) with *symbolic* offset and length
(mathematical integers constrained to usize); the content is an uninterpreted function of (buffer, offset), so the same
bytes read twice give the same value and every content is covered.  Only what the decoders can observe is modelled:
bounds-checked sub-slicing, big-endian integer reads, copies, first byte, lengths."""
import re

import z3

from .interp import Agg, EnumV, Ref, Opaque, Abs, Outcome, Unencodable, UNIT, norm_type, INT_TYPES, FnItem
from .models import ret, panic, deref_all, strip_std_paths, mk_option, generic_args

USIZE_MAX = 2 ** 64 - 1
BYTE = z3.Function("byte_at", z3.IntSort(), z3.IntSort(), z3.IntSort())
U64BE = z3.Function("u64_be_at", z3.IntSort(), z3.IntSort(), z3.IntSort())


class SymSlice:
    def __init__(self, base, off, length):
        self.base = base  # python int: buffer id
        self.off = off
        self.length = length

    def __repr__(self):
        return "SymSlice<%s,%s,%s>" % (self.base, self.off, self.length)


def as_slice(I, st, v):
    v = deref_all(I, st, v)
    if isinstance(v, SymSlice):
        return v
    if isinstance(v, Agg) and v.kind == "bytesview":
        return v.fields[0]
    return None


def rng_bounds(I, st, r, sl):
    """(start, end) of a range value applied to slice sl"""
    r = deref_all(I, st, r)
    if isinstance(r, Agg):
        nm = (r.name or "")
        if nm.startswith("RangeFrom"):
            return r.fields[0], sl.length
        if nm.startswith("RangeTo") and not nm.startswith("RangeToInclusive"):
            return z3.IntVal(0), r.fields[0]
        if nm.startswith("RangeFull"):
            return z3.IntVal(0), sl.length
        if nm.startswith("Range") and len(r.fields) == 2:
            return r.fields[0], r.fields[1]
    raise Unencodable("range value %r" % (r,))


def fork(I, st, cond, on_true, on_false):
    outs = []
    c = z3.simplify(cond)
    if I.feasible(st, c):
        s2 = st.fork()
        s2.assume(c)
        outs.extend(on_true(s2))
    nc = z3.simplify(z3.Not(c))
    if I.feasible(st, nc):
        s3 = st.fork()
        s3.assume(nc)
        outs.extend(on_false(s3))
    return outs


def bytes_models(I, st, caller, func, args, argtys, dest_ty):
    f = strip_std_paths(func).replace("std::slice::<impl", "core::slice::<impl").replace("alloc::slice::<impl", "core::slice::<impl")
    m = re.match(r"^core::slice::<impl \[u8\]>::(\w+)(::<(.*)>)?$", f)
    sl = as_slice(I, st, args[0]) if args else None
    if m and sl is not None and m.group(1) != "copy_from_slice":
        op, ga = m.group(1), m.group(3)
        if op == "len":
            return ret(st, sl.length)
        if op == "is_empty":
            return ret(st, sl.length == 0)
        if op in ("first", "last"):
            def some(s2):
                I.frame_counter += 1
                fr = I.frame_counter
                pos = sl.off if op == "first" else sl.off + sl.length - 1
                b = BYTE(z3.IntVal(sl.base), pos)
                s2.assume(z3.And(b >= 0, b <= 255))
                s2.mem[(fr, 0)] = b
                s2.trace = s2.trace + (("read_byte", pos, b),)
                return [Outcome("return", mk_option(True, Ref(fr, 0, ())), s2)]
            return fork(I, st, sl.length > 0, some, lambda s3: [Outcome("return", mk_option(False), s3)])
        if op == "get":
            idx = deref_all(I, st, args[1])
            if z3.is_expr(idx):  # get(usize)
                def some(s2):
                    I.frame_counter += 1
                    fr = I.frame_counter
                    b = BYTE(z3.IntVal(sl.base), sl.off + idx)
                    s2.assume(z3.And(b >= 0, b <= 255))
                    s2.mem[(fr, 0)] = b
                    return [Outcome("return", mk_option(True, Ref(fr, 0, ())), s2)]
                return fork(I, st, idx < sl.length, some, lambda s3: [Outcome("return", mk_option(False), s3)])
            a, b = rng_bounds(I, st, idx, sl)
            ok = z3.And(a <= b, b <= sl.length)
            return fork(I, st, ok, lambda s2: [Outcome("return", mk_option(True, SymSlice(sl.base, z3.simplify(sl.off + a), z3.simplify(b - a))), s2)],
                        lambda s3: [Outcome("return", mk_option(False), s3)])
        if op in ("split_at", "split_at_checked", "split_first_chunk"):
            mid = args[1]
            if op == "split_first_chunk":
                raise Unencodable("split_first_chunk")
            pair = lambda s2: Agg("tuple", None, (SymSlice(sl.base, sl.off, z3.simplify(mid)), SymSlice(sl.base, z3.simplify(sl.off + mid), z3.simplify(sl.length - mid))))
            if op == "split_at":
                return fork(I, st, mid <= sl.length, lambda s2: [Outcome("return", pair(s2), s2)], lambda s3: [Outcome("panic", None, s3, "slice index out of range (split_at: mid > len)")])
            return fork(I, st, mid <= sl.length, lambda s2: [Outcome("return", mk_option(True, pair(s2)), s2)], lambda s3: [Outcome("return", mk_option(False), s3)])
        if op == "to_vec":
            return ret(st, sl)
        if op in ("chunks_exact", "chunks"):
            n = z3.simplify(args[1])
            if not z3.is_int_value(n) or n.as_long() == 0:
                raise Unencodable("chunks with symbolic or zero size")
            return ret(st, Agg("iter", "chunks_" + op, (sl, z3.IntVal(0), (n.as_long(),))))
        if op in ("as_ptr", "as_mut_ptr"):
            return ret(st, Opaque("raw pointer into the buffer", sl))
        if op == "copy_from_slice":
            return None
    m = re.match(r"^<(Chunks|ChunksExact)<'_, u8> as Iterator>::next$", f) or re.match(r"^<.*slice::(Chunks|ChunksExact)<.*u8> as Iterator>::next$", f)
    if m:
        it = I.load(st, args[0])
        if isinstance(it, Agg) and it.kind == "iter" and str(it.name).startswith("chunks_"):
            base, pos, (n,) = it.fields
            exact = it.name.endswith("exact")
            has = (pos + n <= base.length) if exact else (pos < base.length)

            def some(s2):
                ln = n if exact else z3.If(pos + n <= base.length, n, base.length - pos)
                I.store(s2, args[0], Agg("iter", it.name, (base, z3.simplify(pos + n), (n,))))
                return [Outcome("return", mk_option(True, SymSlice(base.base, z3.simplify(base.off + pos), z3.simplify(ln) if z3.is_expr(ln) else z3.IntVal(ln))), s2)]
            return fork(I, st, has, some, lambda s3: [Outcome("return", mk_option(False), s3)])
    if re.match(r"^<(Chunks|ChunksExact)<'_, u8> as IntoIterator>::into_iter$", f) or re.match(r"^<.*slice::(Chunks|ChunksExact)<.*> as IntoIterator>::into_iter$", f):
        return ret(st, args[0])
    if re.match(r"^core::slice::<impl \[u8\]>::copy_from_slice$", f) or re.match(r"^core::slice::<impl \[T\]>::copy_from_slice", f):
        src = as_slice(I, st, args[1])
        dst = deref_all(I, st, args[0])
        if src is not None and isinstance(dst, Agg) and dst.kind in ("array", "bytesview"):
            n = len(dst.fields) if dst.kind == "array" else dst.fields[1]

            def okc(s2):
                I.store(s2, args[0], Agg("bytesview", None, (src, n)))
                return [Outcome("return", UNIT, s2)]
            return fork(I, st, src.length == n, okc, lambda s3: [Outcome("panic", None, s3, "copy_from_slice: source slice length does not match destination")])
    m = re.match(r"^<\[u8\] as Index<(.*)>>::index$", f)
    if m and sl is not None:
        idx = deref_all(I, st, args[1])
        if z3.is_expr(idx):
            def okc(s2):
                I.frame_counter += 1
                fr = I.frame_counter
                s2.mem[(fr, 0)] = BYTE(z3.IntVal(sl.base), sl.off + idx)
                return [Outcome("return", Ref(fr, 0, ()), s2)]
            return fork(I, st, idx < sl.length, okc, lambda s3: [Outcome("panic", None, s3, "index out of bounds")])
        a, b = rng_bounds(I, st, idx, sl)
        return fork(I, st, z3.And(a <= b, b <= sl.length), lambda s2: [Outcome("return", SymSlice(sl.base, z3.simplify(sl.off + a), z3.simplify(b - a)), s2)],
                    lambda s3: [Outcome("panic", None, s3, "slice index out of range")])
    m = re.match(r"^core::num::<impl (u64|u32|u16|usize|u128)>::from_(be|le)_bytes$", f)
    if m:
        v = deref_all(I, st, args[0])
        if isinstance(v, Agg) and v.kind == "bytesview":
            s = v.fields[0]
            if m.group(1) in ("u64", "usize") and m.group(2) == "be" and v.fields[1] == 8:
                val = U64BE(z3.IntVal(s.base), s.off)
                st.assume(z3.And(val >= 0, val <= USIZE_MAX))
                st.trace = st.trace + (("read_u64", s.off, val),)
                return ret(st, val)
            I.fresh_counter += 1
            val = z3.Int("int_read!%d" % I.fresh_counter)
            lo, hi = INT_TYPES[m.group(1)]
            st.assume(z3.And(val >= lo, val <= hi))
            return ret(st, val)
        if isinstance(v, Agg) and v.kind == "array":
            vals = list(v.fields)
            if m.group(2) == "le":
                vals = vals[::-1]
            r = z3.IntVal(0)
            for b in vals:
                r = r * 256 + b
            return ret(st, z3.simplify(r))
    if re.match(r"^core::f64::<impl f64>::from_(be|le)_bytes$", f):
        I.fresh_counter += 1
        return ret(st, z3.FP("f64_read!%d" % I.fresh_counter, z3.Float64()))
    m = re.match(r"^<&\[u8\] as TryInto<\[u8; (\d+)\]>>::try_into$", f) or re.match(r"^<\[u8; (\d+)\] as TryFrom<&\[u8\]>>::try_from$", f)
    if m and sl is not None:
        n = int(m.group(1))
        return fork(I, st, sl.length == n, lambda s2: [Outcome("return", EnumV("Result", 0, {0: (Agg("bytesview", None, (sl, n)),)}), s2)],
                    lambda s3: [Outcome("return", EnumV("Result", 1, {1: (Opaque("TryFromSliceError"),)}), s3)])
    if re.match(r"^Vec::<u8>::extend_from_slice$", f) and as_slice(I, st, args[1]) is not None:
        cur = I.load(st, args[0])
        if isinstance(cur, Agg) and cur.kind == "vec" and not cur.fields:
            I.store(st, args[0], as_slice(I, st, args[1]))
            return ret(st, UNIT)
    if re.match(r"^<Vec<u8> as (Deref|AsRef<.*>)>::", f) and sl is not None:
        return ret(st, sl)
    if re.match(r"^Vec::<u8>::(len|as_slice)$", f) and sl is not None:
        return ret(st, sl.length if f.endswith("len") else sl)
    # ---- FnOnce::call_once on a function item (decoder passed as argument) ------------------------------------------
    m = re.match(r"^<(.*) as FnOnce<\((.*),\)>>::call_once$", f)
    if m and isinstance(args[0], FnItem):
        tup = args[1]
        cargs = list(tup.fields) if isinstance(tup, Agg) and tup.kind == "tuple" else [tup]
        target = args[0].text
        target = re.sub(r"^\{|\}$", "", target)
        return I.dispatch_call(st, caller, target, cargs, [None] * len(cargs), dest_ty)
    return None
