"""Byte strings with *symbolic length* for Engine B (C04, C11).

A SymStr is (length term, char function): `char(p)` is the byte at position p (a z3 Int; meaningful for p < length).
Lengths are z3 integers bounded by a stated maximum, so the solver — not an enumeration — quantifies over every
length class; equality of two strings is length equality plus position-wise equality up to the maximum length.
Decimal rendering of a machine integer v uses the digit count as a symbolic length and div/mod by constant powers of 10.
"""
import z3


class SymStr:
    def __init__(self, length, char, maxlen, desc=""):
        self.length = length  # z3 Int or python int
        self.char = char  # f(p) -> z3 Int (p: python int or z3 term)
        self.maxlen = maxlen  # python int upper bound of length
        self.desc = desc

    def __repr__(self):
        return "SymStr<%s,max %d>" % (self.desc, self.maxlen)


def literal(bs):
    bs = bytes(bs)

    def ch(p):
        if isinstance(p, int):
            return z3.IntVal(bs[p]) if 0 <= p < len(bs) else z3.IntVal(-1)
        r = z3.IntVal(-1)
        for i in range(len(bs) - 1, -1, -1):
            r = z3.If(p == i, z3.IntVal(bs[i]), r)
        return r
    r = SymStr(len(bs), ch, len(bs), "lit %r" % bs[:12])
    r.atoms = [("lit", bs)]
    return r


def symbolic(name, maxlen, alphabet=None, minlen=0):
    """fresh string of symbolic length in [minlen, maxlen]; returns (SymStr, constraints)"""
    n = z3.Int(name + ".len")
    cs = [z3.Int("%s[%d]" % (name, i)) for i in range(maxlen)]
    cons = [n >= minlen, n <= maxlen]
    for i, c in enumerate(cs):
        if alphabet is None:
            cons.append(z3.And(c >= 0, c <= 255))
        else:
            cons.append(z3.Or([c == b for b in sorted(set(alphabet))]))

    def ch(p):
        if isinstance(p, int):
            return cs[p] if 0 <= p < maxlen else z3.IntVal(-1)
        r = z3.IntVal(-1)
        for i in range(maxlen - 1, -1, -1):
            r = z3.If(p == i, cs[i], r)
        return r
    s = SymStr(n, ch, maxlen, name)
    s.chars = cs
    s.atoms = [("sym", name, n, cs, frozenset(alphabet) if alphabet is not None else None, minlen)]
    return s, cons


def decimal(v, bits=64):
    """decimal rendering of an unsigned machine integer term v (0 <= v < 2^bits)"""
    maxd = len(str(2 ** bits - 1))
    nd = z3.IntVal(maxd)
    for d in range(maxd - 1, 0, -1):
        nd = z3.If(v < 10 ** d, z3.IntVal(d), nd)
    digits = [(v / (10 ** k)) % 10 for k in range(maxd)]  # digit_k: weight 10^k

    def ch(p):
        # position p (0 = most significant) holds digit_{nd-1-p}
        idx = nd - 1 - p
        r = z3.IntVal(-1)
        for k in range(maxd - 1, -1, -1):
            r = z3.If(idx == k, 48 + digits[k], r)
        return r
    r = SymStr(nd, ch, maxd, "dec(%s)" % str(v)[:20])
    r.atoms = [("dec", v, bits)]
    return r


def truncate(s, n):
    """the first n characters of s (string precision)"""
    if s.maxlen <= n:
        return s
    ln = z3.If(s.length <= n, s.length, z3.IntVal(n)) if z3.is_expr(s.length) else min(s.length, n)
    r = SymStr(ln, s.char, n, "trunc%d(%s)" % (n, s.desc[:20]))
    at = getattr(s, "atoms", None)
    r.atoms = [("trunc", at[0], n)] if at and len(at) == 1 and at[0][0] == "sym" else [("opaque", r)]
    return r


def map_chars(s, fn, desc):
    """character-wise image of s (e.g. ASCII lower-casing)"""
    r = SymStr(s.length, lambda p: fn(s.char(p)), s.maxlen, "%s(%s)" % (desc, s.desc[:20]))
    at = getattr(s, "atoms", None)
    r.atoms = [("map", at[0], fn)] if at and len(at) == 1 and at[0][0] == "sym" else [("opaque", r)]
    return r


def concat(parts):
    parts = list(parts)
    if not parts:
        return literal(b"")
    offs = []
    tot = 0
    for p in parts:
        offs.append(tot)
        tot = tot + p.length
    tot = z3.simplify(tot) if z3.is_expr(tot) else tot
    maxlen = sum(p.maxlen for p in parts)

    def ch(pos):
        r = z3.IntVal(-1)
        for p, o in reversed(list(zip(parts, offs))):
            r = z3.If(z3.And(pos >= o, pos < o + p.length), p.char(pos - o), r)
        return r
    r = SymStr(tot, ch, maxlen, "+".join(p.desc[:10] for p in parts)[:60])
    r.atoms = [a for p in parts for a in getattr(p, "atoms", [("opaque", p)])]
    return r


def equal(a, b):
    """z3 Bool: the two strings are equal"""
    m = min(a.maxlen, b.maxlen)
    cl = [a.length == b.length]
    if isinstance(a.length, int) and isinstance(b.length, int):
        if a.length != b.length:
            return z3.BoolVal(False)
        return z3.And([a.char(p) == b.char(p) for p in range(a.length)]) if a.length else z3.BoolVal(True)
    for p in range(m):
        cl.append(z3.Implies(p < a.length, a.char(p) == b.char(p)))
    # if lengths are equal they are <= m, so positions beyond m need no constraint
    return z3.And(cl)


def eval_str(model, s):
    n = s.length if isinstance(s.length, int) else model.eval(s.length, model_completion=True).as_long()
    out = bytearray()
    for p in range(n):
        c = model.eval(s.char(p), model_completion=True)
        out.append(c.as_long() % 256)
    return bytes(out)


# ---------------------------------------------------------------------------------------------------------------------
# length-forked decision of string equalities: every symbolic atom gets a concrete length on each branch, after which
# concatenation is positional.  The solver still decides over all byte contents and all numbers of each length class.
DIGITS = frozenset(range(48, 58))


def instantiations(s, max_digits=20):
    """yield (positions, constraints): positions = list of ('c', byte) | ('s', term, alphabet)"""
    import itertools
    choices = []
    for a in s.atoms:
        if a[0] == "lit":
            choices.append([None])
        elif a[0] == "sym":
            choices.append(list(range(a[5], len(a[3]) + 1)))
        elif a[0] == "dec":
            choices.append(list(range(1, min(max_digits, len(str(2 ** a[2] - 1))) + 1)))
        elif a[0] in ("trunc", "map"):
            choices.append(list(range(a[1][5], len(a[1][3]) + 1)))
        else:
            from .interp import Unencodable
            raise Unencodable("string built by an operation the length-forked decision cannot take apart")
    for combo in itertools.product(*choices):
        pos = []
        cons = []
        for a, c in zip(s.atoms, combo):
            if a[0] == "lit":
                pos.extend(("c", b) for b in a[1])
            elif a[0] == "sym":
                cons.append(a[2] == c)
                pos.extend(("s", a[3][i], a[4]) for i in range(c))
            elif a[0] == "trunc":
                cons.append(a[1][2] == c)
                pos.extend(("s", a[1][3][i], a[1][4]) for i in range(min(c, a[2])))
            elif a[0] == "map":
                cons.append(a[1][2] == c)
                pos.extend(("s", a[2](a[1][3][i]), None) for i in range(c))
            else:
                v, bits = a[1], a[2]
                hi = min(10 ** c, 2 ** bits)
                # fresh digit variables with the positional-notation identity: linear arithmetic, no div/mod
                ds = [z3.Int("digit!%d!%d!%d" % (id(a) % 10 ** 8, c, i)) for i in range(c)]
                cons.append(z3.And([z3.And(d >= 0, d <= 9) for d in ds]))
                cons.append(v == z3.Sum([d * (10 ** (c - 1 - i)) for i, d in enumerate(ds)]) if c > 1 else v == ds[0])
                if c > 1:
                    cons.append(ds[0] >= 1)
                cons.append(v < hi)
                for d in ds:
                    pos.append(("s", 48 + d, DIGITS))
        yield pos, cons


def compatible(pa, pb):
    """syntactic pre-check: can the two positional strings be equal at all?"""
    for x, y in zip(pa, pb):
        if x[0] == "c" and y[0] == "c":
            if x[1] != y[1]:
                return False
        elif x[0] == "c":
            if y[2] is not None and x[1] not in y[2]:
                return False
        elif y[0] == "c":
            if x[2] is not None and y[1] not in x[2]:
                return False
        else:
            if x[2] is not None and y[2] is not None and not (x[2] & y[2]):
                return False
    return True


def decide_equal_implies(a, b, base, differ, max_digits=20, timeout_ms=20000, want_sat=False):
    """Is `a == b and differ` satisfiable under `base`?  Returns (status, model, stats) with status in unsat|sat|unknown."""
    from collections import defaultdict
    ia = list(instantiations(a, max_digits))
    ib = defaultdict(list)
    for pos, cons in instantiations(b, max_digits):
        ib[len(pos)].append((pos, cons))
    stats = {"length_classes_a": len(ia), "length_classes_b": sum(len(v) for v in ib.values()), "pairs_same_length": 0, "pairs_pruned_syntactically": 0, "solver_queries": 0}
    solver = z3.Solver()
    solver.set("timeout", timeout_ms)
    for c in base:
        solver.add(c)
    solver.add(differ)
    for pa, ca in ia:
        for pb, cb in ib.get(len(pa), []):
            stats["pairs_same_length"] += 1
            if not compatible(pa, pb):
                stats["pairs_pruned_syntactically"] += 1
                continue
            solver.push()
            for c in ca + cb:
                solver.add(c)
            for x, y in zip(pa, pb):
                tx = z3.IntVal(x[1]) if x[0] == "c" else x[1]
                ty = z3.IntVal(y[1]) if y[0] == "c" else y[1]
                solver.add(tx == ty)
            stats["solver_queries"] += 1
            r = solver.check()
            if r == z3.sat:
                m = solver.model()
                solver.pop()
                return "sat", m, stats
            if r != z3.unsat:
                solver.pop()
                return "unknown", None, stats
            solver.pop()
    return "unsat", None, stats
