"""Symbolic interpreter for parsed MIR (see parser.py) producing z3 terms.

A run explores every feasible path of a function (forking at `switchInt` on symbolic values, loops
unrolled up to `unroll` visits of a block per activation) and returns a list of Outcome objects:
  kind = 'return'  (value, path condition)
         'panic'   (message: overflow assert, unwrap on Err, explicit panic!, ...)
         'exhausted' (loop bound reached: residual state)
A call is resolved to (1) an entry of the documented call-model table (models.py), (2) another body
of the same dump, by last path segment + normalised argument types (+ Self type of the impl header
read from the source line the dump names); anything else raises Unencodable -> exit 2 upstream.
"""
import re

import z3

from . import parser

INT_TYPES = {
    "u8": (0, 2 ** 8 - 1), "u16": (0, 2 ** 16 - 1), "u32": (0, 2 ** 32 - 1), "u64": (0, 2 ** 64 - 1),
    "u128": (0, 2 ** 128 - 1), "usize": (0, 2 ** 64 - 1),
    "i8": (-2 ** 7, 2 ** 7 - 1), "i16": (-2 ** 15, 2 ** 15 - 1), "i32": (-2 ** 31, 2 ** 31 - 1),
    "i64": (-2 ** 63, 2 ** 63 - 1), "i128": (-2 ** 127, 2 ** 127 - 1), "isize": (-2 ** 63, 2 ** 63 - 1),
}


class Unencodable(Exception):
    pass


# ---------------------------------------------------------------------------------------------
# values
class Agg:
    """struct / tuple / array / closure value: positional fields"""
    __slots__ = ("kind", "name", "fields")

    def __init__(self, kind, name, fields):
        self.kind = kind
        self.name = name
        self.fields = tuple(fields)

    def __repr__(self):
        return "%s%s" % (self.name or self.kind, list(self.fields))


class EnumV:
    """enum value: discriminant (python int or z3 Int) + per-variant payloads (dict idx -> tuple)"""
    __slots__ = ("name", "discr", "payloads")

    def __init__(self, name, discr, payloads):
        self.name = name
        self.discr = discr
        self.payloads = payloads

    def __repr__(self):
        return "Enum<%s>(%s,%s)" % (self.name, self.discr, self.payloads)


class Ref:
    __slots__ = ("frame", "local", "projs", "mut")

    def __init__(self, frame, local, projs, mut=False):
        self.frame = frame
        self.local = local
        self.projs = tuple(projs)
        self.mut = mut

    def __repr__(self):
        return "&%s_%s%s" % (self.frame, self.local, list(self.projs))


class Opaque:
    """value of a type the engine does not interpret (error objects, formatters...). Carries a tag."""
    __slots__ = ("tag", "payload")

    def __init__(self, tag, payload=None):
        self.tag = tag
        self.payload = payload

    def __repr__(self):
        return "Opaque(%s)" % self.tag


class Abs:
    """value of an abstracted type (String, key, signature, hash...): an element of an uninterpreted sort,
    represented by a z3 Int identifier; only equality (and registered uninterpreted functions) observe it"""
    __slots__ = ("sort", "term")

    def __init__(self, sort, term):
        self.sort = sort
        self.term = term

    def __repr__(self):
        return "Abs<%s>(%s)" % (self.sort, self.term)


class FnItem:
    __slots__ = ("text",)

    def __init__(self, text):
        self.text = text

    def __repr__(self):
        return "FnItem(%s)" % self.text


UNIT = Agg("tuple", None, ())


class Outcome:
    def __init__(self, kind, value, state, msg=""):
        self.kind = kind
        self.value = value
        self.state = state
        self.msg = msg

    @property
    def pc(self):
        return self.state.pc

    def __repr__(self):
        return "<%s %s %s>" % (self.kind, self.value if self.kind == "return" else self.msg, len(self.state.pc))


class State:
    def __init__(self):
        self.mem = {}  # (frame, local) -> value
        self.pc = ()  # tuple of z3 Bool
        self.trace = ()  # notes (which panics were possible etc.)
        self.aux = {}  # model-specific persistent data (e.g. hasher accumulators), immutable values

    def fork(self):
        s = State()
        s.mem = dict(self.mem)
        s.pc = self.pc
        s.trace = self.trace
        s.aux = dict(self.aux)
        return s

    def assume(self, c):
        self.pc = self.pc + (c,)


def norm_type(t):
    """strip module paths and lifetimes: 'entities::block_number::BlockNumber' -> 'BlockNumber'"""
    t = re.sub(r"'\w+ ?", "", t)
    t = re.sub(r"\b(?:[A-Za-z_][A-Za-z0-9_]*::)+", "", t)
    t = t.replace("mut ", "mut_").replace(" ", "")
    return t


def last_segment(path):
    """last path segment of a function path, ignoring turbofish generics"""
    p = path
    # drop trailing generic args ::<...>
    while p.endswith(">"):
        # find matching '<'
        depth = 0
        for i in range(len(p) - 1, -1, -1):
            if p[i] == ">" and not (i > 0 and p[i - 1] in "-="):
                depth += 1
            elif p[i] == "<":
                depth -= 1
                if depth == 0:
                    break
        if i >= 2 and p[i - 2:i] == "::":
            p = p[:i - 2]
        else:
            break
    parts = parser.split_top(p, "::")
    return parts[-1].strip(), parts


class Program:
    """All bodies of one MIR dump + lookup"""

    def __init__(self, text, source_root=None):
        self.fns = parser.parse_mir(text)
        self.by_last = {}
        for f in self.fns:
            seg, _ = last_segment(f.name)
            self.by_last.setdefault(seg, []).append(f)
        self.source_root = source_root
        self._impl_header_cache = {}
        self.const_cache = {}

    def impl_header(self, f):
        """Text of the `impl ... {` line the dump refers to ('<impl at path:line:col: ...>')."""
        m = re.search(r"<impl at ([^:>]+):(\d+):(\d+): (\d+):(\d+)", f.name)
        if not m or not self.source_root:
            return ""
        key = (m.group(1), int(m.group(2)), int(m.group(3)))
        if key in self._impl_header_cache:
            return self._impl_header_cache[key]
        import os
        txt = ""
        for root in (self.source_root, os.path.dirname(self.source_root.rstrip("/"))):
            p = os.path.join(root, m.group(1))
            if os.path.exists(p):
                try:
                    lines = open(p).read().split("\n")
                    first = lines[key[1] - 1]
                    if re.match(r"^\s*(pub(\([a-z]+\))? )?(unsafe )?impl\b", first):
                        txt = " ".join(lines[key[1] - 1:key[1] + 4])
                        if "{" in txt:
                            txt = txt[:txt.index("{") + 1]
                    else:
                        # derive-generated impl: the span is the trait token inside #[derive(...)]; the type follows
                        token = first[int(m.group(3)) - 1:int(m.group(5)) - 1] if m.group(2) == m.group(4) else first.strip()
                        nm = ""
                        for l2 in lines[key[1] - 1:key[1] + 12]:
                            mm = re.search(r"\b(struct|enum|union)\s+([A-Za-z_][A-Za-z0-9_]*)", l2)
                            if mm:
                                nm = mm.group(2)
                                break
                        txt = "impl %s for %s {" % (token, nm) if nm else first
                except OSError:
                    pass
                break
        self._impl_header_cache[key] = txt
        return txt

    def find_closure(self, closure_type_text):
        """MIR body of a closure given its type text `{closure@file:l:c: l:c}`"""
        m = re.search(r"\{closure@([^}]*)\}", closure_type_text)
        if not m:
            return None
        key = "closure@" + m.group(1)
        c = [f for f in self.fns if f.params and key in f.params[0][1] and "{closure#" in f.name]
        return c[0] if len(c) == 1 else None

    def find(self, name_regex):
        return [f for f in self.fns if re.search(name_regex, f.name)]

    def find_one(self, name_regex, nparams=None, param_regex=None):
        c = self.find(name_regex)
        if nparams is not None:
            c = [f for f in c if len(f.params) == nparams]
        if param_regex is not None:
            c = [f for f in c if re.search(param_regex, f.header)]
        if len(c) != 1:
            raise Unencodable("function lookup %r: %d candidates %s" % (name_regex, len(c), [f.name for f in c][:5]))
        return c[0]


def type_matches(param_t, arg_t):
    a = norm_type(param_t)
    b = norm_type(arg_t)
    if a == b:
        return True
    # generic parameter / impl Trait / Self are wildcards
    if re.fullmatch(r"[A-Z][A-Za-z0-9]?", a) or a.startswith("impl") or a == "Self":
        return True
    ra = re.sub(r"\b[A-Z]\b|\bSelf\b|impl[A-Za-z<>,:+]*", "@", a)
    if "@" in ra:
        pat = re.escape(ra).replace("@", ".+")
        return re.fullmatch(pat, b) is not None
    return False


class Interp:
    def __init__(self, prog, models=None, unroll=8, solver=None, max_paths=20000):
        self.prog = prog
        self.models = models or []
        self.unroll = unroll
        self.frame_counter = 0
        self.fresh_counter = 0
        self.solver = solver or z3.Solver()
        self.max_paths = max_paths
        self.calls_seen = {}  # func text -> resolution kind (for evidence)
        self.solver_checks = 0
        self.side = []  # global side conditions for fresh variables (definitions), always assumed
        self.enum_tables = {
            "Option": ["None", "Some"], "Result": ["Ok", "Err"],
            "Ordering": {"Less": -1, "Equal": 0, "Greater": 1},
        }
        self.stats = {"paths": 0, "blocks": 0, "calls": 0}
        self.watch = set()  # callee names whose (args, result) are recorded in state.trace

    # ---- helpers ---------------------------------------------------------------------------
    def fresh(self, prefix, sort="Int"):
        self.fresh_counter += 1
        n = "%s!%d" % (prefix, self.fresh_counter)
        if sort == "Int":
            return z3.Int(n)
        if sort == "Bool":
            return z3.Bool(n)
        if sort == "Real":
            return z3.Real(n)
        raise ValueError(sort)

    def feasible(self, state, cond):
        c = z3.simplify(cond) if z3.is_expr(cond) else cond
        if c is True or (z3.is_expr(c) and z3.is_true(c)):
            return True
        if c is False or (z3.is_expr(c) and z3.is_false(c)):
            return False
        if not getattr(self, "prune", True):
            return True
        self.solver.push()
        for p in state.pc:
            self.solver.add(p)
        self.solver.add(c)
        self.solver_checks += 1
        r = self.solver.check()
        self.solver.pop()
        return r != z3.unsat

    def variant_index(self, enum_name, variant):
        base = norm_type(enum_name).split("<")[0]
        t = self.enum_tables.get(base)
        if t is None:
            t = self.load_enum(base)
        if isinstance(t, dict):
            if variant in t:
                return t[variant]
        elif variant in t:
            return t.index(variant)
        m = re.fullmatch(r"variant#(\d+)", variant)
        if m:
            return int(m.group(1))
        raise Unencodable("unknown variant %s of %s" % (variant, enum_name))

    def load_enum(self, base):
        """find `enum <base> {` in the crate sources and list its variants (explicit discriminants honoured)"""
        import os
        root = self.prog.source_root
        if root:
            for dp, dn, fnames in os.walk(root):
                if "/target" in dp:
                    continue
                for fn in fnames:
                    if not fn.endswith(".rs"):
                        continue
                    try:
                        src = open(os.path.join(dp, fn)).read()
                    except OSError:
                        continue
                    m = re.search(r"\benum\s+%s\b[^{;]*\{" % re.escape(base), src)
                    if not m:
                        continue
                    j = parser.find_matching(src, m.end() - 1)
                    body = src[m.end():j]
                    body = re.sub(r"//[^\n]*", "", body)
                    body = re.sub(r"/\*.*?\*/", "", body, flags=re.S)
                    feats = getattr(self, "features", {"num-integer-backend"})
                    body = re.sub(r'#\[cfg\(feature\s*=\s*"([^"]+)"\)\]', lambda mm: "" if mm.group(1) in feats else "@@DROP@@ ", body)
                    body = re.sub(r"#\[[^\]]*\]", "", body)
                    names = {}
                    payloads = {}
                    nxt = 0
                    for part in parser.split_top(body, ","):
                        part = part.strip()
                        if part.startswith("@@DROP@@"):
                            continue
                        mm = re.match(r"^([A-Za-z_][A-Za-z0-9_]*)", part)
                        if not mm:
                            continue
                        d = re.search(r"=\s*(-?\d+)\s*$", part)
                        if d:
                            nxt = int(d.group(1))
                        names[mm.group(1)] = nxt
                        rest = part[mm.end():].strip()
                        tys = []
                        if rest.startswith("("):
                            jj = parser.find_matching(rest, 0)
                            tys = [x.strip() for x in parser.split_top(rest[1:jj], ",") if x.strip()]
                        elif rest.startswith("{"):
                            jj = parser.find_matching(rest, 0)
                            tys = [x.split(":", 1)[1].strip() for x in parser.split_top(rest[1:jj], ",") if ":" in x]
                        payloads[mm.group(1)] = tys
                        nxt += 1
                    if not hasattr(self, "enum_payloads"):
                        self.enum_payloads = {}
                    self.enum_payloads[base] = payloads
                    self.enum_tables[base] = names
                    return names
        if base.endswith("Discriminants"):
            # strum's #[derive(EnumDiscriminants)]: same variant names, same order, no payloads
            t = self.load_enum(base[:-len("Discriminants")])
            t = dict(t) if isinstance(t, dict) else {n: i for i, n in enumerate(t)}
            self.enum_tables[base] = t
            return t
        raise Unencodable("enum %s not found in sources" % base)

    # ---- types -----------------------------------------------------------------------------
    def place_type(self, fn, place):
        local, projs = place
        t = fn.locals.get(local)
        for p in projs:
            if p[0] == "field":
                t = p[2]
            elif p[0] == "deref":
                if t is None:
                    return None
                tt = t.strip()
                if tt.startswith("&"):
                    tt = tt[1:].lstrip()
                    tt = re.sub(r"^'\w+ ", "", tt)
                    if tt.startswith("mut "):
                        tt = tt[4:]
                    t = tt
                elif tt.startswith("*const ") or tt.startswith("*mut "):
                    t = tt.split(" ", 1)[1]
                elif tt.startswith("Box<") or tt.startswith("std::boxed::Box<"):
                    t = tt[tt.index("<") + 1:-1]
                else:
                    t = None
            elif p[0] == "downcast":
                pass
            elif p[0] in ("index", "constindex"):
                if t and t.startswith("["):
                    inner = t[1:-1]
                    k = parser.rfind_top(inner, "; ")
                    t = inner[:k] if k >= 0 else inner
                else:
                    t = None
        return t

    def operand_type(self, fn, op):
        if op[0] in ("copy", "move"):
            return self.place_type(fn, op[1])
        txt = op[1]
        m = re.fullmatch(r"-?\d+_([iu](?:8|16|32|64|128|size))", txt)
        if m:
            return m.group(1)
        if txt in ("true", "false"):
            return "bool"
        if txt.startswith('"'):
            return "&str"
        if txt.startswith('b"'):
            return "&[u8]"
        return None

    # ---- memory ----------------------------------------------------------------------------
    def project(self, state, val, projs, fn=None, frame=None):
        for p in projs:
            if p[0] == "deref":
                if isinstance(val, Ref):
                    val = self.load(state, val)
                elif isinstance(val, Agg) and val.kind == "box":
                    val = val.fields[0]
                else:
                    raise Unencodable("deref of non-reference %r" % (val,))
            elif p[0] == "field":
                if isinstance(val, Agg):
                    if p[1] >= len(val.fields):
                        raise Unencodable("field %d of %r" % (p[1], val))
                    val = val.fields[p[1]]
                elif isinstance(val, tuple) and val and val[0] == "variant":
                    val = val[1][p[1]]
                elif isinstance(val, EnumV) and "upvars" in val.payloads:
                    val = val.payloads["upvars"][p[1]]
                elif isinstance(val, Abs) and p[1] == 0:
                    pass  # single-field wrapper around an abstracted value: transparent
                else:
                    raise Unencodable("field %d of non-aggregate %r" % (p[1], val))
            elif p[0] == "downcast":
                if not isinstance(val, EnumV):
                    raise Unencodable("downcast of non-enum %r" % (val,))
                idx = self.variant_index(val.name, p[1])
                if idx not in val.payloads:
                    raise Unencodable("downcast to variant %s with no payload in %r" % (p[1], val))
                val = ("variant", val.payloads[idx])
            elif p[0] == "index":
                iv = state.mem[(frame, p[1])]
                val = self.index_value(val, iv)
            elif p[0] == "constindex":
                val = self.index_value(val, p[1])
            else:
                raise Unencodable("projection %r" % (p,))
        return val

    def index_value(self, val, iv):
        if isinstance(val, Agg) and val.kind in ("array", "slice", "vec", "hashmap", "btreemap", "hashset", "btreeset"):
            if isinstance(iv, int):
                return val.fields[iv]
            sv = z3.simplify(iv) if z3.is_expr(iv) else iv
            if z3.is_int_value(sv):
                return val.fields[sv.as_long()]
            # symbolic index into concrete-length array of scalars: ite chain
            res = val.fields[-1]
            for k in range(len(val.fields) - 2, -1, -1):
                res = z3.If(iv == k, val.fields[k], res)
            return res
        raise Unencodable("index into %r" % (val,))

    def load(self, state, ref):
        base = state.mem.get((ref.frame, ref.local))
        if base is None:
            raise Unencodable("load of uninitialised %r" % (ref,))
        return self.project(state, base, ref.projs, frame=ref.frame)

    def store(self, state, ref, val):
        base = state.mem.get((ref.frame, ref.local))
        state.mem[(ref.frame, ref.local)] = self.update(state, base, list(ref.projs), val, ref.frame)

    def read_place(self, state, fn, frame, place):
        local, projs = place
        key = (frame, local)
        if key not in state.mem:
            raise Unencodable("read of uninitialised _%d in %s" % (local, fn.name))
        return self.project(state, state.mem[key], projs, fn, frame)

    def update(self, state, base, projs, newval, frame):
        """functional update of base at projs with newval; handles deref by writing through the reference"""
        if not projs:
            return newval
        p = projs[0]
        rest = projs[1:]
        if p[0] == "deref":
            if isinstance(base, Ref):
                tgt = state.mem[(base.frame, base.local)]
                state.mem[(base.frame, base.local)] = self.update(state, tgt, list(base.projs) + list(rest), newval, base.frame)
                return base
            if isinstance(base, Agg) and base.kind == "box":
                return Agg("box", base.name, (self.update(state, base.fields[0], rest, newval, frame),))
            raise Unencodable("write through non-reference %r" % (base,))
        if p[0] == "field":
            if isinstance(base, Agg):
                f = list(base.fields)
                while len(f) <= p[1]:
                    f.append(None)
                f[p[1]] = self.update(state, f[p[1]], rest, newval, frame)
                return Agg(base.kind, base.name, f)
            if base is None:
                f = [None] * (p[1] + 1)
                f[p[1]] = self.update(state, None, rest, newval, frame)
                return Agg("partial", None, f)
            if isinstance(base, tuple) and base and base[0] == "variant":
                f = list(base[1])
                f[p[1]] = self.update(state, f[p[1]], rest, newval, frame)
                return ("variant", tuple(f))
            raise Unencodable("field write into %r" % (base,))
        if p[0] == "downcast":
            if isinstance(base, EnumV):
                idx = self.variant_index(base.name, p[1])
                pl = dict(base.payloads)
                cur = pl.get(idx, ())
                nv = self.update(state, ("variant", cur), rest, newval, frame)
                pl[idx] = nv[1]
                return EnumV(base.name, base.discr, pl)
            if base is None:
                # building an enum in place: `((_0 as Some).0: T) = x; discriminant(_0) = 1;`
                nv = self.update(state, ("variant", ()), rest, newval, frame)
                return EnumV("?" + p[1], None, {("name", p[1]): nv[1]})
            raise Unencodable("downcast write into %r" % (base,))
        if p[0] in ("index", "constindex"):
            iv = state.mem[(frame, p[1])] if p[0] == "index" else p[1]
            sv = z3.simplify(iv) if z3.is_expr(iv) else iv
            if z3.is_expr(sv) and z3.is_int_value(sv):
                sv = sv.as_long()
            if isinstance(sv, int) and isinstance(base, Agg):
                f = list(base.fields)
                f[sv] = self.update(state, f[sv], rest, newval, frame)
                return Agg(base.kind, base.name, f)
            raise Unencodable("symbolic index write")
        raise Unencodable("write projection %r" % (p,))

    def write_place(self, state, fn, frame, place, val):
        local, projs = place
        key = (frame, local)
        if not projs:
            state.mem[key] = val
            return
        base = state.mem.get(key)
        state.mem[key] = self.update(state, base, list(projs), val, frame)

    # ---- constants -------------------------------------------------------------------------
    def eval_const(self, state, fn, txt):
        m = re.fullmatch(r"(-?\d+)_([iu](?:8|16|32|64|128|size))", txt)
        if m:
            return z3.IntVal(int(m.group(1)))
        if txt == "true":
            return z3.BoolVal(True)
        if txt == "false":
            return z3.BoolVal(False)
        if txt == "()":
            return UNIT
        if txt.startswith('"') or txt.startswith('b"'):
            return Agg("str", None, (parse_str_literal(txt),))
        m = re.fullmatch(r"'(.*)'", txt)
        if m:
            ch = m.group(1)
            if ch.startswith("\\"):
                ch = bytes(ch, "utf8").decode("unicode_escape")
            return z3.IntVal(ord(ch))
        m = re.fullmatch(r"(-?[\d.]+(?:[eE][-+]?\d+)?)(f32|f64)", txt)
        if m:
            srt = z3.Float64() if m.group(2) == "f64" else z3.Float32()
            return z3.FPVal(float(m.group(1)), srt)
        m = re.fullmatch(r"core::num::<impl ([iu](?:8|16|32|64|128|size))>::(MAX|MIN|BITS)", txt)
        if m:
            lo, hi = INT_TYPES[m.group(1)]
            return z3.IntVal({"MAX": hi, "MIN": lo, "BITS": (hi - lo + 1).bit_length() - 1}[m.group(2)])
        m = re.fullmatch(r"core::f(32|64)::<impl f(32|64)>::([A-Z_]+)", txt)
        if m:
            import sys as _sys
            srt = z3.Float64() if m.group(1) == "64" else z3.Float32()
            table = {"EPSILON": _sys.float_info.epsilon if m.group(1) == "64" else 1.1920929e-07, "MAX": _sys.float_info.max,
                     "MIN_POSITIVE": _sys.float_info.min, "INFINITY": float("inf"), "NEG_INFINITY": float("-inf")}
            if m.group(3) in table:
                return z3.FPVal(table[m.group(3)], srt)
        m = re.search(r"::promoted\[(\d+)\]$", txt)
        if m:
            cname = fn.name + "::promoted[%s]" % m.group(1)
            cands = [f for f in self.prog.fns if f.kind == "const" and f.name == cname]
            if len(cands) != 1:
                # closures' promoteds use the parent's naming; fall back on suffix match
                seg = txt.split("::")[-2] + "::promoted[%s]" % m.group(1)
                cands = [f for f in self.prog.fns if f.kind == "const" and f.name.endswith(seg)]
            if len(cands) != 1:
                raise Unencodable("promoted %s: %d candidates" % (txt, len(cands)))
            return self.eval_const_item(state, cands[0])
        # named constant
        seg, parts = last_segment(txt)
        if seg in parser.SIMPLE_CONSTS and not [f for f in self.prog.by_last.get(seg, []) if f.kind == "const"]:
            return self.eval_const(state, fn, parser.SIMPLE_CONSTS[seg][2])
        cands = [f for f in self.prog.by_last.get(seg, []) if f.kind == "const"]
        if len(cands) > 1 and len(parts) >= 2:
            owner = norm_type(parts[-2])
            c2 = [f for f in cands if owner in self.prog.impl_header(f) or ("::" + owner + "::") in f.name or f.name.startswith(owner + "::")]
            if c2:
                cands = c2
        if len(cands) == 1:
            return self.eval_const_item(state, cands[0])
        if len(cands) > 1:
            raise Unencodable("constant %s ambiguous: %s" % (txt, [f.name for f in cands][:4]))
        # unit enum variant printed as a constant: `const Option::<T>::None`
        cparts = [x for x in parts[:-1] if not (x.strip().startswith("<") and " as " not in x)]
        if cparts:
            owner = norm_type(cparts[-1]).split("<")[0]
            if owner in self.enum_tables or self.is_enum(owner):
                try:
                    return EnumV(owner, self.variant_index(owner, seg), {})
                except Unencodable:
                    pass
        # function item / unit struct / ZST closure
        return FnItem(txt)

    def eval_const_item(self, state, f):
        try:
            outs = self.call_fn(f, [], state)
        except Unencodable as e:
            # a constant whose initialiser is outside the fragment (byte-string literals behind promoted references, ...):
            # an opaque value — any use other than passing it on is reported as unencodable at the use site
            return Opaque("const " + f.name)
        outs = [o for o in outs if o.kind == "return"]
        if len(outs) != 1:
            raise Unencodable("constant %s did not evaluate to one value" % f.name)
        state.mem.update(outs[0].state.mem)
        return outs[0].value

    # ---- operands / rvalues ----------------------------------------------------------------
    def eval_operand(self, state, fn, frame, op):
        if op[0] in ("copy", "move"):
            return self.read_place(state, fn, frame, op[1])
        return self.eval_const(state, fn, op[1])

    def int_range(self, ty):
        if ty is None:
            return None
        return INT_TYPES.get(norm_type(ty))

    def wrap(self, v, rng):
        lo, hi = rng
        m = hi - lo + 1
        if lo == 0:
            return v % m
        return ((v - lo) % m) + lo

    def eval_binop(self, state, fn, frame, name, a_op, b_op):
        a = self.eval_operand(state, fn, frame, a_op)
        b = self.eval_operand(state, fn, frame, b_op)
        ty = self.operand_type(fn, a_op) or self.operand_type(fn, b_op)
        return self.binop(state, name, a, b, ty)

    def binop(self, state, name, a, b, ty):
        rng = self.int_range(ty)
        if z3.is_expr(a) and z3.is_fp(a):
            rm = z3.RNE()
            tbl = {"Add": lambda: z3.fpAdd(rm, a, b), "Sub": lambda: z3.fpSub(rm, a, b), "Mul": lambda: z3.fpMul(rm, a, b),
                   "Div": lambda: z3.fpDiv(rm, a, b), "Lt": lambda: z3.fpLT(a, b), "Le": lambda: z3.fpLEQ(a, b),
                   "Gt": lambda: z3.fpGT(a, b), "Ge": lambda: z3.fpGEQ(a, b), "Eq": lambda: z3.fpEQ(a, b), "Ne": lambda: z3.Not(z3.fpEQ(a, b))}
            if name in tbl:
                return tbl[name]()
            raise Unencodable("float binop " + name)
        isbool = z3.is_bool(a) if z3.is_expr(a) else isinstance(a, bool)
        if isinstance(a, (Agg, EnumV, Ref, Opaque)) or isinstance(b, (Agg, EnumV, Ref, Opaque)):
            if isinstance(a, EnumV) and isinstance(b, EnumV) and name in ("Eq", "Ne") and not a.payloads and not b.payloads:
                r = a.discr == b.discr
                r = z3.BoolVal(r) if isinstance(r, bool) else r
                return r if name == "Eq" else z3.Not(r)
            raise Unencodable("binop %s on non-scalar %r %r" % (name, a, b))
        if name in ("Eq", "Ne", "Lt", "Le", "Gt", "Ge"):
            if isbool:
                r = {"Eq": a == b, "Ne": a != b}.get(name)
                if r is None:
                    ai, bi = z3.If(a, 1, 0), z3.If(b, 1, 0)
                    r = {"Lt": ai < bi, "Le": ai <= bi, "Gt": ai > bi, "Ge": ai >= bi}[name]
                return r
            return {"Eq": a == b, "Ne": a != b, "Lt": a < b, "Le": a <= b, "Gt": a > b, "Ge": a >= b}[name]
        if name == "Cmp":
            d = z3.If(a < b, -1, z3.If(a == b, 0, 1))
            return EnumV("Ordering", z3.simplify(d), {})
        if isbool:
            if name == "BitAnd":
                return z3.And(a, b)
            if name == "BitOr":
                return z3.Or(a, b)
            if name == "BitXor":
                return z3.Xor(a, b)
            raise Unencodable("bool binop " + name)
        if rng is None:
            raise Unencodable("binop %s on unknown integer type %r" % (name, ty))
        lo, hi = rng
        if name in ("AddWithOverflow", "SubWithOverflow", "MulWithOverflow"):
            exact = {"A": a + b, "S": a - b, "M": a * b}[name[0]]
            ovf = z3.Or(exact < lo, exact > hi)
            return Agg("tuple", None, (z3.If(ovf, self.wrap(exact, rng), exact), ovf))
        if name in ("Add", "Sub", "Mul"):
            exact = {"A": a + b, "S": a - b, "M": a * b}[name[0]]
            return z3.If(z3.Or(exact < lo, exact > hi), self.wrap(exact, rng), exact)
        if name in ("AddUnchecked", "SubUnchecked", "MulUnchecked"):
            return {"A": a + b, "S": a - b, "M": a * b}[name[0]]
        if name in ("Div", "Rem"):
            return self.divrem(state, name, a, b, lo < 0)
        if name in ("Shl", "Shr", "ShlUnchecked", "ShrUnchecked"):
            sb = z3.simplify(b)
            if not z3.is_int_value(sb):
                raise Unencodable("symbolic shift amount")
            k = sb.as_long()
            if name.startswith("Shl"):
                return self.wrap(a * (2 ** k), rng)
            if lo < 0:
                raise Unencodable("signed shr")
            return a / (2 ** k)
        if name == "BitAnd" and lo == 0:
            for x_, y_ in ((a, b), (b, a)):
                sy = z3.simplify(y_) if z3.is_expr(y_) else y_
                if z3.is_expr(sy) and z3.is_int_value(sy):
                    mval = sy.as_long()
                    if mval >= 0 and (mval + 1) & mval == 0:  # mask 2^k - 1
                        return x_ % (mval + 1)
        if name in ("BitAnd", "BitOr", "BitXor"):
            bits = (hi - lo + 1).bit_length() - 1
            if lo < 0:
                raise Unencodable("signed bit op")
            f = {"BitAnd": lambda x, y: x & y, "BitOr": lambda x, y: x | y, "BitXor": lambda x, y: x ^ y}[name]
            return z3.BV2Int(f(z3.Int2BV(a, bits), z3.Int2BV(b, bits)))
        raise Unencodable("binop " + name)

    def divrem(self, state, name, a, b, signed):
        sb = z3.simplify(b)
        if signed:
            # truncating division
            q = z3.If(z3.Or(z3.And(a >= 0, b > 0), z3.And(a <= 0, b < 0)), z3.If(a >= 0, a, -a) / z3.If(b >= 0, b, -b),
                      -(z3.If(a >= 0, a, -a) / z3.If(b >= 0, b, -b)))
            return q if name == "Div" else a - q * b
        if z3.is_int_value(sb):
            state.aux["quot"] = state.aux.get("quot", ()) + ((a / sb, a % sb, a, sb),)
            return a / sb if name == "Div" else a % sb
        # symbolic divisor: fresh quotient / remainder with the division lemma (keeps the query free of
        # non-linear div terms; z3 4.8 answers `unknown` on those)
        q = self.fresh("q")
        r = self.fresh("r")
        state.assume(z3.Implies(b > 0, z3.And(a == q * b + r, r >= 0, r < b, q >= 0, q <= a)))
        state.aux["quot"] = state.aux.get("quot", ()) + ((q, r, a, b),)
        return q if name == "Div" else r

    def eval_rvalue(self, state, fn, frame, rv, dest_ty=None):
        k = rv[0]
        if k == "use":
            return self.eval_operand(state, fn, frame, rv[1])
        if k == "ref":
            local, projs = rv[2]
            # &(*p) where p is a reference: re-borrow = same target
            if projs and projs[-1][0] == "deref":
                inner = self.read_place(state, fn, frame, (local, projs[:-1]))
                if isinstance(inner, Ref):
                    return Ref(inner.frame, inner.local, inner.projs, rv[1] == "mut")
            # resolve leading derefs so that the reference points at the ultimate owner
            base_frame, base_local, out_projs = frame, local, []
            cur = None
            for i, p in enumerate(projs):
                if p[0] == "deref":
                    cur = self.read_place(state, fn, frame, (local, projs[:i]))
                    if isinstance(cur, Ref):
                        base_frame, base_local, out_projs = cur.frame, cur.local, list(cur.projs)
                        continue
                    raise Unencodable("borrow through non-reference deref")
                if p[0] == "index":
                    iv = z3.simplify(state.mem[(frame, p[1])])
                    if not z3.is_int_value(iv):
                        raise Unencodable("borrow of symbolic index")
                    out_projs.append(("constindex", iv.as_long(), 0))
                else:
                    out_projs.append(p)
            return Ref(base_frame, base_local, out_projs, rv[1] == "mut")
        if k == "binop":
            return self.eval_binop(state, fn, frame, rv[1], rv[2], rv[3])
        if k == "unop":
            a = self.eval_operand(state, fn, frame, rv[2])
            if rv[1] == "Not":
                if z3.is_bool(a):
                    return z3.Not(a)
                rng = self.int_range(self.operand_type(fn, rv[2]))
                if rng and rng[0] == 0:
                    return rng[1] - a
                raise Unencodable("Not on signed int")
            if rv[1] == "PtrMetadata":
                tgt = a
                while isinstance(tgt, Ref):
                    tgt = self.load(state, tgt)
                if isinstance(tgt, Agg) and tgt.kind in ("vec", "slice", "array"):
                    return z3.IntVal(len(tgt.fields))
                if hasattr(tgt, "length") and hasattr(tgt, "off"):
                    return tgt.length
                raise Unencodable("PtrMetadata of %r" % (tgt,))
            if rv[1] == "Neg":
                if isinstance(a, Opaque):
                    raise Unencodable("Neg on opaque")
                return -a
            raise Unencodable("unop " + rv[1])
        if k == "cast":
            v = self.eval_operand(state, fn, frame, rv[1])
            kind = rv[3]
            if kind.startswith("IntToInt"):
                src = self.int_range(self.operand_type(fn, rv[1]))
                dst = self.int_range(rv[2])
                if z3.is_bool(v):
                    return z3.If(v, 1, 0)
                if dst is None:
                    if norm_type(rv[2]) in ("char",):
                        return v
                    raise Unencodable("cast to " + rv[2])
                if src is not None and src[0] >= dst[0] and src[1] <= dst[1]:
                    return v
                return self.wrap(v, dst)
            if kind.startswith("PointerCoercion") or kind in ("PtrToPtr", "Transmute") and isinstance(v, Ref):
                return v
            if kind.startswith("PointerCoercion"):
                return v
            raise Unencodable("cast kind %s" % kind)
        if k == "aggregate":
            ops = [self.eval_operand(state, fn, frame, o) for o in rv[3]]
            if rv[1] == "tuple":
                return Agg("tuple", None, ops)
            if rv[1] == "array":
                return Agg("array", None, ops)
            name = rv[2]
            # enum variant?  Path::<..>::Variant
            seg, parts = last_segment(name)
            if len(parts) >= 2:
                owner = norm_type(parts[-2]).split("<")[0]
                if owner in self.enum_tables or self.is_enum(owner, dest_ty):
                    idx = self.variant_index(owner, seg)
                    return EnumV(owner, idx, {idx: tuple(ops)} if ops else {})
            if dest_ty is not None:
                dn = norm_type(dest_ty).split("<")[0]
                if dn in self.enum_tables or self.is_enum(dn, dest_ty):
                    idx = self.variant_index(dn, seg)
                    return EnumV(dn, idx, {idx: tuple(ops)} if ops else {})
            return Agg("adt", norm_type(name).split("<")[0] or seg, ops)
        if k == "discriminant":
            v = self.read_place(state, fn, frame, rv[1])
            if isinstance(v, EnumV):
                return v.discr if z3.is_expr(v.discr) else z3.IntVal(v.discr)
            raise Unencodable("discriminant of %r" % (v,))
        if k == "len":
            v = self.read_place(state, fn, frame, rv[1])
            if isinstance(v, Agg) and v.kind in ("array", "slice"):
                return z3.IntVal(len(v.fields))
            raise Unencodable("len of %r" % (v,))
        if k == "repeat":
            v = self.eval_operand(state, fn, frame, rv[1])
            m = re.match(r"(\d+)", rv[2])
            if not m:
                raise Unencodable("repeat count " + rv[2])
            return Agg("array", None, [v] * int(m.group(1)))
        raise Unencodable("rvalue %r" % (rv,))

    def is_enum(self, base, ty_hint=None):
        if base in self.enum_tables:
            return True
        if not re.fullmatch(r"[A-Z][A-Za-z0-9_]*", base or ""):
            return False
        if not hasattr(self, "_not_enum"):
            self._not_enum = set()
        if base in self._not_enum:
            return False
        try:
            self.load_enum(base)
            return True
        except Unencodable:
            self._not_enum.add(base)
            return False

    # ---- execution -------------------------------------------------------------------------
    def call_fn(self, f, args, state):
        """Execute body f with argument values; returns list of Outcome."""
        self.frame_counter += 1
        frame = self.frame_counter
        st = state.fork()
        for (loc, ty), v in zip(f.params, args):
            st.mem[(frame, loc)] = v
        if len(args) != len(f.params):
            raise Unencodable("arity mismatch calling %s" % f.name)
        results = []
        work = [("bb0", st, {})]
        while work:
            bbname, st, visits = work.pop()
            self.stats["blocks"] += 1
            if self.stats["blocks"] > 4_000_000:
                raise Unencodable("block budget exhausted")
            v = visits.get(bbname, 0)
            if v >= self.unroll:
                oc = Outcome("exhausted", None, st, "loop bound %d reached at %s of %s" % (self.unroll, bbname, f.name))
                oc.frame = frame
                oc.fn = f
                results.append(oc)
                continue
            visits = dict(visits)
            visits[bbname] = v + 1
            b = parser.materialize(f.blocks[bbname])
            try:
                for s in b.stmts:
                    self.exec_stmt(st, f, frame, s)
            except _PathDead:
                continue
            t = b.term
            k = t[0]
            if k == "goto":
                work.append((t[1], st, visits))
            elif k == "return":
                rv = st.mem.get((frame, 0), UNIT)
                results.append(Outcome("return", rv, st))
            elif k == "unreachable":
                continue
            elif k == "resume":
                continue
            elif k == "switch":
                val = self.eval_operand(st, f, frame, t[1])
                if z3.is_bool(val):
                    val = z3.If(val, z3.IntVal(1), z3.IntVal(0))
                sv = z3.simplify(val) if z3.is_expr(val) else z3.IntVal(val)
                ty = self.operand_type(f, t[1])
                rng = self.int_range(ty)
                arms = []
                for c, tgt in t[2]:
                    # switch values of signed types are printed as unsigned bit patterns by rustc in some versions
                    arms.append((c, tgt))
                if z3.is_int_value(sv):
                    cv = sv.as_long()
                    tgt = None
                    for c, bbt in arms:
                        if c == cv or (rng and rng[0] < 0 and c > rng[1] and c - (rng[1] - rng[0] + 1) == cv):
                            tgt = bbt
                            break
                    if tgt is None:
                        tgt = t[3]
                    if tgt is None:
                        continue
                    work.append((tgt, st, visits))
                else:
                    conds = []
                    for c, bbt in arms:
                        cc = c
                        if rng and rng[0] < 0 and c > rng[1]:
                            cc = c - (rng[1] - rng[0] + 1)
                        conds.append((sv == cc, bbt))
                    if t[3] is not None:
                        conds.append((z3.And([sv != (c if not (rng and rng[0] < 0 and c > rng[1]) else c - (rng[1] - rng[0] + 1)) for c, _ in arms]) if arms else z3.BoolVal(True), t[3]))
                    for cond, bbt in conds:
                        if self.feasible(st, cond):
                            s2 = st.fork()
                            s2.assume(cond)
                            work.append((bbt, s2, visits))
                    self.stats["paths"] += max(0, len(conds) - 1)
                    if self.stats["paths"] > self.max_paths:
                        raise Unencodable("path budget exhausted (%d)" % self.max_paths)
            elif k == "assert":
                c = self.eval_operand(st, f, frame, t[1])
                if t[2]:
                    c = z3.Not(c)
                c = z3.simplify(c)
                bad = z3.Not(c)
                if self.feasible(st, bad):
                    s2 = st.fork()
                    s2.assume(bad)
                    results.append(Outcome("panic", None, s2, "assert failed: %s in %s" % (t[3][:80], f.name)))
                if self.feasible(st, c):
                    st.assume(c)
                    work.append((t[4], st, visits))
            elif k == "drop":
                if t[2] is not None:
                    work.append((t[2], st, visits))
            elif k == "call":
                dest, func, argops, retbb = t[1], t[2], t[3], t[4]
                argvals = [self.eval_operand(st, f, frame, a) for a in argops]
                argtys = [self.operand_type(f, a) for a in argops]
                dest_ty = self.place_type(f, dest) if dest else None
                outs = self.dispatch_call(st, f, func, argvals, argtys, dest_ty)
                for o in outs:
                    if o.kind == "return":
                        if retbb is None:
                            continue
                        s2 = o.state
                        if dest is not None:
                            self.write_place(s2, f, frame, dest, o.value)
                        work.append((retbb, s2, visits))
                    else:
                        results.append(o)
            else:
                raise Unencodable("terminator %r in %s" % (t, f.name))
        return results

    def exec_stmt(self, st, f, frame, s):
        k = s[0]
        if k == "nop":
            return
        if k == "assign":
            dest_ty = self.place_type(f, s[1])
            v = self.eval_rvalue(st, f, frame, s[2], dest_ty)
            self.write_place(st, f, frame, s[1], v)
            return
        if k == "setdiscr":
            cur = self.read_place_or_none(st, f, frame, s[1])
            ty = self.place_type(f, s[1])
            name = norm_type(ty).split("<")[0] if ty else "?"
            if isinstance(cur, EnumV):
                pl = {}
                for kk, vv in cur.payloads.items():
                    if isinstance(kk, tuple):
                        pl[self.variant_index(name, kk[1])] = vv
                    else:
                        pl[kk] = vv
                self.write_place(st, f, frame, s[1], EnumV(name, s[2], pl))
            else:
                self.write_place(st, f, frame, s[1], EnumV(name, s[2], {}))
            return
        if k == "assume":
            return
        raise Unencodable("statement %r in %s" % (s, f.name))

    def read_place_or_none(self, st, f, frame, place):
        try:
            return self.read_place(st, f, frame, place)
        except Unencodable:
            return None

    # ---- calls -----------------------------------------------------------------------------
    def dispatch_call(self, st, caller, func, argvals, argtys, dest_ty):
        self.stats["calls"] += 1
        for model in self.models:
            r = model(self, st, caller, func, argvals, argtys, dest_ty)
            if r is not None:
                self.calls_seen.setdefault(func, "model")
                return r
        callee = self.resolve(caller, func, argtys, argvals)
        if callee is None:
            raise Unencodable("call to %s (arg types %s; values %s) is neither in the dump nor in the model table" % (func, argtys, [repr(a)[:60] for a in argvals]))
        self.calls_seen.setdefault(func, "mir:" + callee.name)
        outs = self.call_fn(callee, argvals, st)
        if callee.name in self.watch:
            for o in outs:
                if o.kind == "return":
                    o.state.trace = o.state.trace + ((callee.name, tuple(argvals), o.value),)
        return outs

    def resolve(self, caller, func, argtys, argvals=None):
        seg, parts = last_segment(func)
        cands = [f for f in self.prog.by_last.get(seg, []) if f.kind == "fn" and len(f.params) == len(argtys)]
        if not cands:
            return None

        def ok(f):
            for (loc, pt), at in zip(f.params, argtys):
                if at is None:
                    continue
                if not type_matches(pt, at):
                    return False
            return True

        c2 = [f for f in cands if ok(f)]
        if not c2:
            return None
        # the Self type named in the call path must be the one of the candidate's impl block
        owner = None
        trait = None
        # drop turbofish segments (`Type::<Args>::method`)
        parts = [x for i_, x in enumerate(parts[:-1]) if not (x.strip().startswith("<") and (i_ > 0 or " as " not in x))] + [parts[-1]]
        m = re.match(r"^<(.*) as (.*)>$", parts[-2].strip()) if len(parts) >= 2 else None
        if m:
            owner = norm_type(m.group(1))
            trait = norm_type(m.group(2))
        elif len(parts) >= 2:
            owner = norm_type(parts[-2])
        if owner:
            ob = owner.split("<")[0].lstrip("&").replace("mut_", "")
            concrete_owner = re.fullmatch(r"[A-Za-z_][A-Za-z0-9_]+", ob) is not None and not re.fullmatch(r"[A-Z]|Self", ob) and not ob[0].islower()
            if concrete_owner:
                c3 = []
                for f in c2:
                    h = re.sub(r"\b(?:[A-Za-z_][A-Za-z0-9_]*::)+", "", self.prog.impl_header(f))
                    if not h:
                        continue  # free function: cannot be a method of `owner`
                    if "$" in h or re.search(r"\b%s\b" % re.escape(ob), h):
                        if trait is None or "$" in h or trait.split("<")[0] in h:
                            c3.append(f)
                if not c3:
                    return None
                c2 = c3
            elif ob and ob[0].islower() and len(parts) >= 2 and not m:
                # module-qualified free function `module::func`
                c3 = [f for f in c2 if not self.prog.impl_header(f)]
                if c3:
                    c2 = c3
        if len(c2) == 1:
            return c2[0]
        if trait:
            c4 = [f for f in c2 if re.search(r"impl(<[^>]*>)?%s(<|for)" % re.escape(trait.split("<")[0]), norm_type(self.prog.impl_header(f)))]
            if len(c4) != 1 and argtys and argtys[-1] is not None:
                # `impl Sub<u64> for X` vs `impl Sub<&u64> for X`: the trait's type argument is the last argument's type
                c4b = [f for f in c2 if norm_type(f.params[-1][1]) == norm_type(argtys[-1])]
                if len(c4b) == 1:
                    c4 = c4b
            if len(c4) == 1:
                return c4[0]
        c5 = [f for f in c2 if f.name == func or f.name.endswith("::" + func)]
        if len(c5) == 1:
            return c5[0]
        raise Unencodable("ambiguous call %s: %s" % (func, [f.name for f in c2][:6]))

    def check_owner(self, f, func, parts):
        """a unique candidate by name+types must still not contradict an explicit `<T as Trait>` owner"""
        if len(parts) >= 2:
            m = re.match(r"^<(.*) as (.*)>$", parts[-2].strip())
            if m:
                h = norm_type(self.prog.impl_header(f))
                owner = norm_type(m.group(1)).split("<")[0]
                if h and "$" not in h and owner and re.fullmatch(r"[A-Za-z0-9_]+", owner) and owner not in h and not re.fullmatch(r"[A-Z]", owner):
                    return None
        return f


class _PathDead(Exception):
    pass


def parse_str_literal(txt):
    """MIR string literal -> bytes"""
    isb = txt.startswith("b")
    body = txt[2:-1] if isb else txt[1:-1]
    out = bytearray()
    i = 0
    while i < len(body):
        c = body[i]
        if c == "\\":
            n = body[i + 1]
            if n == "n":
                out.append(10)
                i += 2
            elif n == "t":
                out.append(9)
                i += 2
            elif n == "r":
                out.append(13)
                i += 2
            elif n == "0":
                out.append(0)
                i += 2
            elif n in "\\\"'":
                out.append(ord(n))
                i += 2
            elif n == "x":
                out.append(int(body[i + 2:i + 4], 16))
                i += 4
            elif n == "u":
                j = body.index("}", i)
                out += chr(int(body[i + 3:j], 16)).encode("utf8")
                i = j + 1
            else:
                out.append(ord(n))
                i += 2
        else:
            out += c.encode("utf8")
            i += 1
    return bytes(out)
