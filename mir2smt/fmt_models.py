"""Call models for core::fmt as lowered by nightly (`Arguments::new::<N, K>(template, &args)`), String plumbing and hashers
over SymStr byte strings (sstr.py).  Template bytes: n < 0x80 = literal of n bytes follows, 0xC0 = next argument,
0x00 = end.  `Display` of a user type is obtained by interpreting its own MIR body against an accumulating Formatter."""
import re

import z3

from . import sstr
from .interp import Agg, EnumV, Ref, Opaque, Abs, Outcome, Unencodable, UNIT, norm_type, INT_TYPES
from .models import ret, deref_all, strip_std_paths, generic_args


def as_symstr(I, st, v):
    v = deref_all(I, st, v)
    if isinstance(v, sstr.SymStr):
        return v
    if isinstance(v, Agg) and v.kind == "str":
        return sstr.literal(v.fields[0])
    if isinstance(v, Agg) and len(v.fields) == 1:
        return as_symstr(I, st, v.fields[0])
    raise Unencodable("not a string value: %r" % (v,))


def render_value(I, st, caller, tytext, ref):
    """Display rendering of the value behind `ref` whose static type is tytext"""
    t = norm_type(tytext)
    while t.startswith("&"):
        t = t[1:]
        if t.startswith("mut_"):
            t = t[4:]
    v = deref_all(I, st, ref)
    if t in INT_TYPES and INT_TYPES[t][0] == 0:
        bits = {"u8": 8, "u16": 16, "u32": 32, "u64": 64, "usize": 64, "u128": 128}[t]
        return sstr.decimal(v, bits), st
    if t in INT_TYPES and INT_TYPES[t][0] < 0:
        # signed integer: only the non-negative case is rendered (a possibly negative value is refused, not guessed)
        if I.feasible(st, v < 0):
            raise Unencodable("Display of a possibly negative %s" % t)
        bits = {"i8": 8, "i16": 16, "i32": 32, "i64": 64, "isize": 64, "i128": 128}[t]
        return sstr.decimal(v, bits - 1), st
    if t in ("String", "str"):
        return as_symstr(I, st, v), st
    # user type: run its Display::fmt body against an accumulator
    I.frame_counter += 1
    fr = I.frame_counter
    st.mem[(fr, 0)] = sstr.literal(b"")
    st.mem[(fr, 1)] = v
    outs = I.dispatch_call(st, caller, "<%s as Display>::fmt" % tytext.lstrip("&"), [Ref(fr, 1, ()), Ref(fr, 0, (), True)], ["&" + tytext.lstrip("&"), "&mut Formatter<'_>"], None)
    outs = [o for o in outs if o.kind == "return"]
    if len(outs) != 1:
        raise Unencodable("Display::fmt of %s forked into %d paths" % (tytext, len(outs)))
    s2 = outs[0].state
    return s2.mem[(fr, 0)], s2


def render_arguments(I, st, caller, fa):
    """fa = Agg('fmtargs', (template bytes, [fmtarg...])) -> (SymStr, state)"""
    tpl, args = fa.fields
    parts = []
    i = 0
    ai = 0
    while i < len(tpl):
        b = tpl[i]
        if b == 0:
            break
        if b < 0x80:
            parts.append(sstr.literal(tpl[i + 1:i + 1 + b]))
            i += 1 + b
        elif b == 0xC0:
            if ai >= len(args):
                raise Unencodable("format template uses more arguments than given")
            a = args[ai]
            ai += 1
            s, st = render_value(I, st, caller, a.fields[0], a.fields[1])
            parts.append(s)
            i += 1
        elif b >= 0xC0:
            # placeholder with options: 0b11 | precision-indirect | width-indirect | arg_index | precision | width | flags
            i += 1
            prec = None
            if b & 0x30:
                raise Unencodable("format placeholder with a dynamic width or precision")
            if b & 0x01:
                flags = int.from_bytes(bytes(tpl[i:i + 4]), "little")
                i += 4
                # bits 21-26: sign, alternate, zero pad, debug hex (not modelled); 27 / 28: width / precision present (their values follow);
                # 29-30: alignment (only matters with a width); low 21 bits: fill character
                if flags & 0x07E00000:
                    raise Unencodable("format placeholder flags 0x%08x" % flags)
            if b & 0x02:
                width = int.from_bytes(bytes(tpl[i:i + 2]), "little")
                i += 2
                if width:
                    raise Unencodable("format placeholder with a width (padding is not modelled)")
            if b & 0x04:
                prec = int.from_bytes(bytes(tpl[i:i + 2]), "little")
                i += 2
            if b & 0x08:
                ai = int.from_bytes(bytes(tpl[i:i + 2]), "little")
                i += 2
            if ai >= len(args):
                raise Unencodable("format template uses more arguments than given")
            a = args[ai]
            ai += 1
            s, st = render_value(I, st, caller, a.fields[0], a.fields[1])
            if prec is not None:
                t = norm_type(a.fields[0].lstrip("&"))
                if t not in ("String", "str"):
                    raise Unencodable("precision on a %s argument" % t)
                s = sstr.truncate(s, prec)
            parts.append(s)
        else:
            raise Unencodable("format template opcode 0x%02x (long literal pieces are not modelled)" % b)
    return sstr.concat(parts), st


def fmt_models(I, st, caller, func, args, argtys, dest_ty):
    f = strip_std_paths(func)
    m = re.match(r"^core::fmt::rt::Argument::<'_>::new_display::<(.*)>$", f) or re.match(r"^Argument::<'_>::new_display::<(.*)>$", f)
    if m:
        return ret(st, Agg("fmtarg", None, (m.group(1), args[0])))
    if re.match(r"^(core::fmt::rt::<impl )?Arguments::<'_>(>)?::new::<\d+, \d+>$", f):
        tpl = deref_all(I, st, args[0])
        arr = deref_all(I, st, args[1])
        if not (isinstance(tpl, Agg) and tpl.kind == "str"):
            raise Unencodable("format template is not a literal")
        return ret(st, Agg("fmtargs", None, (tpl.fields[0], list(arr.fields))))
    if re.match(r"^(core::fmt::rt::<impl )?Arguments::<'_>(>)?::from_str$", f):
        s = deref_all(I, st, args[0])
        return ret(st, Agg("fmtargs", None, (bytes([len(s.fields[0])]) + s.fields[0] + b"\x00" if len(s.fields[0]) < 0x80 else None, [])))
    if re.match(r"^(std|alloc)::fmt::format$", f):
        fa = args[0]
        if isinstance(fa, Agg) and fa.kind == "fmtargs" and fa.fields[0] is not None:
            s, st2 = render_arguments(I, st, caller, fa)
            return ret(st2, s)
        return None
    if re.match(r"^(std::fmt::)?Formatter::<'_>::write_fmt$", f):
        fa = args[1]
        if isinstance(fa, Agg) and fa.kind == "fmtargs" and fa.fields[0] is not None:
            s, st2 = render_arguments(I, st, caller, fa)
            acc = I.load(st2, args[0])
            I.store(st2, args[0], sstr.concat([acc, s]))
            return ret(st2, EnumV("Result", 0, {0: (UNIT,)}))
        return None
    if re.match(r"^(String|str|(\w+::)*str::<impl str>)::is_empty$", f):
        v = deref_all(I, st, args[0])
        if isinstance(v, sstr.SymStr):
            return ret(st, (v.length == 0) if z3.is_expr(v.length) else z3.BoolVal(v.length == 0))
    if re.match(r"^(String|str|(\w+::)*str::<impl str>)::(to_ascii_lowercase|to_ascii_uppercase|to_lowercase|to_uppercase)$", f):
        v = deref_all(I, st, args[0])
        if isinstance(v, sstr.SymStr):
            lower = "lower" in f
            if not f.endswith(("to_ascii_lowercase", "to_ascii_uppercase")):
                raise Unencodable("Unicode case mapping")
            fn = (lambda c: z3.If(z3.And(c >= 65, c <= 90), c + 32, c)) if lower else (lambda c: z3.If(z3.And(c >= 97, c <= 122), c - 32, c))
            return ret(st, sstr.map_chars(v, fn, "lower" if lower else "upper"))
    if re.match(r"^(std::fmt::)?Formatter::<'_>::write_str$", f):
        acc = I.load(st, args[0])
        I.store(st, args[0], sstr.concat([acc, as_symstr(I, st, args[1])]))
        return ret(st, EnumV("Result", 0, {0: (UNIT,)}))
    m = re.match(r"^<(.*) as Display>::fmt$", f)
    if m and norm_type(m.group(1)) in set(INT_TYPES) | {"String", "str"}:
        s, st2 = render_value(I, st, caller, m.group(1), args[0])
        acc = I.load(st2, args[1])
        I.store(st2, args[1], sstr.concat([acc, s]))
        return ret(st2, EnumV("Result", 0, {0: (UNIT,)}))
    if re.match(r"^must_use::<.*>$", f) or re.match(r"^std::hint::must_use::<.*>$", f):
        return ret(st, args[0])
    # ---- String plumbing: all identity on the byte sequence ------------------------------------------------------
    if re.match(r"^String::(into_bytes|as_bytes|as_str|into_boxed_str)$", f) or re.match(r"^<String as (Deref|AsRef<.*>|Borrow<.*>)>::", f) \
            or re.match(r"^<(String|str|&str) as (ToString|ToOwned|Clone)>::(to_string|to_owned|clone)$", f) \
            or re.match(r"^<(String|&str|Vec<u8>|&String) as (Into|From)<.*>>::(into|from)$", f) or re.match(r"^core::str::<impl str>::(as_bytes|to_string|to_owned)$", f) \
            or re.match(r"^<(String|Vec<u8>) as From<(String|&str|&String|Vec<u8>)>>::from$", f):
        v = deref_all(I, st, args[0])
        if isinstance(v, sstr.SymStr) or (isinstance(v, Agg) and v.kind == "str"):
            return ret(st, as_symstr(I, st, v))
    m = re.match(r"^<(.*) as ToString>::to_string$", f)
    if m:
        s, st2 = render_value(I, st, caller, m.group(1), args[0])
        return ret(st2, s)
    return None
