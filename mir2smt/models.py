"""Call-model table of Engine B: the documented semantics of std/core (and a few third-party) functions
whose bodies are not in the crate's MIR dump.  Every model is a function
    model(interp, state, caller_fn, func_text, argvals, argtys, dest_ty) -> list[Outcome] | None
returning None when it does not apply.  The table is part of the trusted base and listed in the evidence.
"""
import re

import z3

from .interp import Agg, EnumV, Ref, Opaque, Abs, FnItem, Outcome, Unencodable, UNIT, norm_type, last_segment, INT_TYPES


def ret(st, v):
    return [Outcome("return", v, st)]


def panic(st, msg):
    return [Outcome("panic", None, st, msg)]


def deref_all(I, st, v):
    while isinstance(v, Ref):
        v = I.load(st, v)
    return v


def mk_option(some, payload=None):
    if some:
        return EnumV("Option", 1, {1: (payload,)})
    return EnumV("Option", 0, {})


def mk_bool(b):
    return z3.BoolVal(b) if isinstance(b, bool) else b


def ordering(a, b):
    return EnumV("Ordering", z3.simplify(z3.If(a < b, -1, z3.If(a == b, 0, 1))), {})


INT = r"(?:[iu](?:8|16|32|64|128|size))"


def strip_std_paths(f):
    """`<u64 as std::cmp::Ord>::cmp` -> `<u64 as Ord>::cmp` (module paths in front of std type/trait names)"""
    return re.sub(r"\b(?:std|core|alloc)::(?:[a-z_0-9]+::)+(?=[A-Z])", "", f)


def split_enum(I, st, v, what):
    """For an enum with symbolic discriminant return [(cond, variant_idx)] feasible cases."""
    if not isinstance(v, EnumV):
        raise Unencodable("%s on non-enum %r" % (what, v))
    d = v.discr
    if isinstance(d, int):
        return [(z3.BoolVal(True), d)]
    sd = z3.simplify(d)
    if z3.is_int_value(sd):
        return [(z3.BoolVal(True), sd.as_long())]
    cases = []
    tbl = I.enum_tables.get(v.name)
    idxs = list(tbl.values()) if isinstance(tbl, dict) else list(range(len(tbl))) if tbl else sorted(v.payloads)
    for i in idxs:
        c = sd == i
        if I.feasible(st, c):
            cases.append((c, i))
    return cases


def core_models(I, st, caller, func, args, argtys, dest_ty):
    f = strip_std_paths(func)
    seg, parts = last_segment(f)
    # ---- integer intrinsics -----------------------------------------------------------------
    m = re.match(r"^core::num::<impl (%s)>::(\w+)$" % INT, f)
    if m:
        ty, op = m.group(1), m.group(2)
        lo, hi = INT_TYPES[ty]
        a = args[0]
        if op == "abs_diff":
            b = args[1]
            return ret(st, z3.If(a >= b, a - b, b - a))
        if op == "saturating_sub":
            b = args[1]
            return ret(st, z3.If(a - b < lo, lo, z3.If(a - b > hi, hi, a - b)))
        if op == "saturating_add":
            b = args[1]
            return ret(st, z3.If(a + b > hi, hi, z3.If(a + b < lo, lo, a + b)))
        if op == "saturating_mul":
            b = args[1]
            return ret(st, z3.If(a * b > hi, hi, z3.If(a * b < lo, lo, a * b)))
        if op in ("wrapping_add", "wrapping_sub", "wrapping_mul"):
            b = args[1]
            e = {"a": a + b, "s": a - b, "m": a * b}[op[9]]
            return ret(st, z3.If(z3.Or(e < lo, e > hi), I.wrap(e, (lo, hi)), e))
        if op in ("checked_add", "checked_sub", "checked_mul"):
            b = args[1]
            e = {"a": a + b, "s": a - b, "m": a * b}[op[8]]
            ok = z3.And(e >= lo, e <= hi)
            return ret(st, EnumV("Option", z3.If(ok, 1, 0), {1: (e,)}))
        if op in ("checked_div", "checked_rem") and lo == 0:
            b = args[1]
            s2 = st
            v = I.divrem(s2, "Div" if op == "checked_div" else "Rem", a, b, False)
            return ret(s2, EnumV("Option", z3.If(b != 0, 1, 0), {1: (v,)}))
        if op in ("min", "max"):
            b = args[1]
            return ret(st, z3.If(a <= b, a, b) if op == "min" else z3.If(a >= b, a, b))
        if op == "pow":
            e = z3.simplify(args[1])
            if not z3.is_int_value(e):
                raise Unencodable("pow with symbolic exponent")
            r = z3.IntVal(1)
            for _ in range(e.as_long()):
                r = r * a
            return ret(st, r)
        if op == "is_power_of_two" or op == "next_power_of_two":
            raise Unencodable(op)
        if op in ("to_be_bytes", "to_le_bytes"):
            n = {"u8": 1, "u16": 2, "u32": 4, "u64": 8, "u128": 16, "usize": 8}.get(ty)
            if n is None:
                raise Unencodable(op + " on signed")
            bs = [(a / (256 ** k)) % 256 for k in range(n)]
            if op == "to_be_bytes":
                bs = bs[::-1]
            return ret(st, Agg("array", None, bs))
        raise Unencodable("integer method %s::%s" % (ty, op))
    # ---- comparisons on primitives ----------------------------------------------------------
    m = re.match(r"^<&*(%s|bool|char) as (PartialEq|PartialOrd|Ord)(?:<.*>)?>::(\w+)$" % INT, f)
    if m:
        a = deref_all(I, st, args[0])
        b = deref_all(I, st, args[1])
        op = m.group(3)
        if z3.is_bool(a):
            a, b = z3.If(a, 1, 0), z3.If(b, 1, 0)
        if op == "eq":
            return ret(st, a == b)
        if op == "ne":
            return ret(st, a != b)
        if op in ("lt", "le", "gt", "ge"):
            return ret(st, {"lt": a < b, "le": a <= b, "gt": a > b, "ge": a >= b}[op])
        if op == "cmp":
            return ret(st, ordering(a, b))
        if op == "partial_cmp":
            return ret(st, mk_option(True, ordering(a, b)))
        if op in ("max", "min"):
            return ret(st, z3.If(a >= b, a, b) if op == "max" else z3.If(a <= b, a, b))
    m = re.match(r"^<Option<.*> as PartialEq>::(eq|ne)$", f)
    if m:
        a, b = deref_all(I, st, args[0]), deref_all(I, st, args[1])
        if isinstance(a, EnumV) and isinstance(b, EnumV):
            da = a.discr if z3.is_expr(a.discr) else z3.IntVal(a.discr)
            db = b.discr if z3.is_expr(b.discr) else z3.IntVal(b.discr)
            pa = deref_all(I, st, a.payloads[1][0]) if 1 in a.payloads else None
            pb = deref_all(I, st, b.payloads[1][0]) if 1 in b.payloads else None
            if pa is not None and pb is not None:
                if isinstance(pa, Abs) and isinstance(pb, Abs):
                    pe = pa.term == pb.term
                elif z3.is_expr(pa) and z3.is_expr(pb):
                    pe = pa == pb
                else:
                    raise Unencodable("Option::eq on payloads %r %r" % (pa, pb))
                r = z3.And(da == db, z3.Or(da == 0, pe))
            else:
                r = z3.And(da == db, da == 0)
            r = z3.simplify(r)
            return ret(st, r if m.group(1) == "eq" else z3.Not(r))
    # ---- std::cmp::{max,min}::<T>: `match Ord::cmp(&a,&b) { Greater => a, _ => b }` (max), reverse for min
    m = re.match(r"^std::cmp::(max|min)::<(.*)>$", f)
    m_ord = re.match(r"^<(.*) as Ord>::(max|min)$", f)
    if m_ord and norm_type(m_ord.group(1)) not in INT_TYPES:
        class _M:
            def __init__(self, a, b):
                self.a, self.b = a, b
            def group(self, i):
                return (None, self.a, self.b)[i]
        m = _M(m_ord.group(2), m_ord.group(1))
    if m:
        T = m.group(2)
        if norm_type(T) in INT_TYPES:
            a, b = args
            return ret(st, z3.If(a > b, a, b) if m.group(1) == "max" else z3.If(a <= b, a, b))
        # call the type's own Ord::cmp body from the dump
        outs = []
        I.frame_counter += 1
        fr = I.frame_counter
        st.mem[(fr, 1)] = args[0]
        st.mem[(fr, 2)] = args[1]
        cmpf = "<%s as Ord>::cmp" % T
        for o in I.dispatch_call(st, caller, cmpf, [Ref(fr, 1, ()), Ref(fr, 2, ())], ["&" + T, "&" + T], "Ordering"):
            if o.kind != "return":
                outs.append(o)
                continue
            for c, idx in split_enum(I, o.state, o.value, "Ord::cmp result"):
                s2 = o.state.fork()
                s2.assume(c)
                if m.group(1) == "max":
                    v = args[0] if idx == 1 else args[1]
                else:
                    v = args[1] if idx == 1 else args[0]
                outs.append(Outcome("return", v, s2))
        return outs
    # ---- comparisons through a reference forward to the referent: impl<A: PartialEq<B>> PartialEq<&B> for &A etc.
    m = re.match(r"^<&(?:mut )?(.*) as (PartialEq|PartialOrd|Ord)(<.*>)?>::(\w+)$", f)
    if m and norm_type(m.group(1)).lstrip("&") not in INT_TYPES and len(args) == 2:
        inner = [I.load(st, a) if isinstance(a, Ref) else a for a in args]
        if all(isinstance(a, Ref) for a in inner):
            return I.dispatch_call(st, caller, "<%s as %s>::%s" % (m.group(1), m.group(2), m.group(4)), inner, [None, None], dest_ty)
    # ---- provided methods of PartialOrd on user types: defined through the type's own partial_cmp body
    m = re.match(r"^<(.*) as PartialOrd(<.*>)?>::(lt|le|gt|ge)$", f)
    if m and norm_type(m.group(1)).lstrip("&") not in INT_TYPES:
        outs = []
        pc_f = "<%s as PartialOrd%s>::partial_cmp" % (m.group(1), m.group(2) or "")
        for o in I.dispatch_call(st, caller, pc_f, args, argtys, "Option<Ordering>"):
            if o.kind != "return":
                outs.append(o)
                continue
            for c, idx in split_enum(I, o.state, o.value, pc_f):
                s2 = o.state.fork()
                s2.assume(c)
                if idx == 0:
                    outs.append(Outcome("return", z3.BoolVal(False), s2))
                    continue
                ordv = o.value.payloads[1][0]
                d = ordv.discr if z3.is_expr(ordv.discr) else z3.IntVal(ordv.discr)
                r = {"lt": d < 0, "le": d <= 0, "gt": d > 0, "ge": d >= 0}[m.group(3)]
                outs.append(Outcome("return", z3.simplify(r), s2))
        return outs
    # ---- Ordering helpers -------------------------------------------------------------------
    m = re.match(r"^<(?:std::cmp::)?Ordering as PartialEq>::(eq|ne)$", f)
    if m:
        a, b = deref_all(I, st, args[0]), deref_all(I, st, args[1])
        da = a.discr if z3.is_expr(a.discr) else z3.IntVal(a.discr)
        db_ = b.discr if z3.is_expr(b.discr) else z3.IntVal(b.discr)
        return ret(st, z3.simplify(da == db_ if m.group(1) == "eq" else da != db_))
    m = re.match(r"^(?:std::cmp::)?Ordering::(is_eq|is_ne|is_lt|is_gt|is_le|is_ge|reverse|then)$", f)
    if m:
        v = deref_all(I, st, args[0])
        d = v.discr if z3.is_expr(v.discr) else z3.IntVal(v.discr)
        op = m.group(1)
        if op == "reverse":
            return ret(st, EnumV("Ordering", z3.simplify(-d), {}))
        if op == "then":
            o = deref_all(I, st, args[1])
            od = o.discr if z3.is_expr(o.discr) else z3.IntVal(o.discr)
            return ret(st, EnumV("Ordering", z3.simplify(z3.If(d == 0, od, d)), {}))
        return ret(st, {"is_eq": d == 0, "is_ne": d != 0, "is_lt": d < 0, "is_gt": d > 0, "is_le": d <= 0, "is_ge": d >= 0}[op])
    # ---- Option / Result --------------------------------------------------------------------
    m = re.match(r"^Result::<.*>::(expect_err|unwrap_err)$", f)
    if m:
        v = deref_all(I, st, args[0])
        outs = []
        for c, idx in split_enum(I, st, v, f):
            s2 = st.fork()
            s2.assume(c)
            if idx == 1:
                outs.append(Outcome("return", v.payloads[1][0], s2))
            else:
                outs.append(Outcome("panic", None, s2, "Result::%s on Ok" % m.group(1)))
        return outs
    m = re.match(r"^(Option|Result)::<.*>::(unwrap|expect|is_some|is_none|is_ok|is_err|ok|err|unwrap_or|unwrap_or_default)$", f)
    if m:
        kind, op = m.group(1), m.group(2)
        v = deref_all(I, st, args[0])
        good = 1 if kind == "Option" else 0
        outs = []
        for c, idx in split_enum(I, st, v, f):
            s2 = st.fork()
            s2.assume(c)
            isgood = idx == good
            if op in ("unwrap", "expect"):
                if isgood:
                    outs.append(Outcome("return", v.payloads[idx][0], s2))
                else:
                    outs.append(Outcome("panic", None, s2, "%s::%s on %s" % (kind, op, "None" if kind == "Option" else "Err")))
            elif op in ("is_some", "is_ok"):
                outs.append(Outcome("return", z3.BoolVal(isgood), s2))
            elif op in ("is_none", "is_err"):
                outs.append(Outcome("return", z3.BoolVal(not isgood), s2))
            elif op == "ok":
                outs.append(Outcome("return", mk_option(isgood, v.payloads[idx][0] if isgood else None), s2))
            elif op == "err":
                outs.append(Outcome("return", mk_option(not isgood, v.payloads[idx][0] if not isgood else None), s2))
            elif op == "unwrap_or":
                outs.append(Outcome("return", v.payloads[idx][0] if isgood else args[1], s2))
            elif op == "unwrap_or_default" and isgood:
                outs.append(Outcome("return", v.payloads[idx][0], s2))
            elif op == "unwrap_or_default" and re.match(r"^Option::<(%s)>::" % INT, f):
                outs.append(Outcome("return", z3.IntVal(0), s2))
            else:
                raise Unencodable(f)
        return outs
    # ---- trivial identity-like functions ----------------------------------------------------
    m = re.match(r"^<(.*) as (Clone)>::clone$", f)
    if m and norm_type(m.group(1)) in set(INT_TYPES) | {"bool", "char"}:
        return ret(st, deref_all(I, st, args[0]))
    if re.match(r"^<&.* as Deref>::deref$", f) or re.match(r"^<&mut .* as Deref(Mut)?>::deref(_mut)?$", f):
        return ret(st, I.load(st, args[0]))
    if re.match(r"^<(.*) as From<\1>>::from$", f) or re.match(r"^<(.*) as Into<\1>>::into$", f):
        return ret(st, args[0])
    m = re.match(r"^<(%s) as TryFrom<(%s)>>::try_from$" % (INT, INT), f) or re.match(r"^<(%s) as TryInto<(%s)>>::try_into$" % (INT, INT), f)
    if m:
        dst = m.group(1) if "TryFrom" in f else m.group(2)
        lo, hi = INT_TYPES[dst]
        a = args[0]
        ok = z3.And(a >= lo, a <= hi)
        return ret(st, EnumV("Result", z3.If(ok, 0, 1), {0: (a,), 1: (Opaque("TryFromIntError"),)}))
    m = re.match(r"^<(%s) as From<(%s|bool)>>::from$" % (INT, INT), f)
    if m:
        a = args[0]
        return ret(st, z3.If(a, 1, 0) if z3.is_bool(a) else a)
    m = re.match(r"^<([A-Z]) as Into<(.*)>>::into$", f)
    if m and isinstance(args[0], EnumV) and norm_type(args[0].name) == norm_type(m.group(2)):
        # generic body instantiated at D = T: `impl<T> From<T> for T` is the identity
        return ret(st, args[0])
    m = re.match(r"^<(.*) as TryInto<(.*)>>::try_into$", f)
    if m:
        # blanket impl: U::try_from(self)
        return I.dispatch_call(st, caller, "<%s as TryFrom<%s>>::try_from" % (m.group(2), m.group(1)), args, argtys, dest_ty)
    m = re.match(r"^<(.*) as Into<(.*)>>::into$", f)
    if m:
        # blanket impl: U::from(self)
        return I.dispatch_call(st, caller, "<%s as From<%s>>::from" % (m.group(2), m.group(1)), args, argtys, dest_ty)
    if re.match(r"^Option::<Result<.*>>::transpose$", f):
        v = deref_all(I, st, args[0])
        dz = lambda d: d if z3.is_expr(d) else z3.IntVal(d)
        if 1 not in v.payloads or not v.payloads[1]:
            return ret(st, EnumV("Result", 0, {0: (EnumV("Option", 0, {}),)}))
        inner = v.payloads[1][0]
        ok_payload = inner.payloads.get(0, (Opaque("unreachable"),))[0]
        d = z3.simplify(z3.If(dz(v.discr) == 0, 0, dz(inner.discr)))
        pl = {0: (EnumV("Option", v.discr, {1: (ok_payload,)}),)}
        if 1 in inner.payloads:
            pl[1] = inner.payloads[1]
        return ret(st, EnumV("Result", d.as_long() if z3.is_int_value(d) else d, pl))
    if re.match(r"^(Option|Result)::<.*>::(as_ref|as_mut|as_deref)$", f):
        v = deref_all(I, st, args[0])
        if isinstance(v, EnumV):
            return ret(st, v)  # references to payloads are transparent in the value model (payloads are immutable values here)
    if re.match(r"^<(Arc|Box|Rc)<.*> as (Deref|AsRef<.*>|Borrow<.*>)>::(deref|as_ref|borrow)$", f):
        return ret(st, args[0])  # smart pointers are transparent in the value model
    if re.match(r"^std::mem::drop::<.*>$", f) or f.startswith("std::mem::forget::<"):
        return ret(st, UNIT)
    if re.match(r"^<(.*) as (Try)>::branch$", f):
        # Result<T,E>::branch -> ControlFlow<Result<Infallible,E>, T>: Continue=0, Break=1
        v = deref_all(I, st, args[0])
        owner = norm_type(v.name)
        good = 1 if owner == "Option" else 0
        outs = []
        for c, idx in split_enum(I, st, v, f):
            s2 = st.fork()
            s2.assume(c)
            if idx == good:
                outs.append(Outcome("return", EnumV("ControlFlow", 0, {0: (v.payloads[idx][0],)}), s2))
            else:
                resid = EnumV(owner, idx, {idx: v.payloads.get(idx, ())})
                outs.append(Outcome("return", EnumV("ControlFlow", 1, {1: (resid,)}), s2))
        return outs
    if re.match(r"^<(.*) as FromResidual<.*>>::from_residual$", f):
        v = deref_all(I, st, args[0])
        if isinstance(v, EnumV):
            tgt = norm_type(dest_ty or "Result").split("<")[0]
            if tgt == "Option":
                return ret(st, EnumV("Option", 0, {}))
            # error conversion via From is identity on opaque errors
            return ret(st, EnumV("Result", 1, {1: v.payloads.get(1, (Opaque("error"),))}))
    # ---- panics -----------------------------------------------------------------------------
    if re.match(r"^(core|std)::panicking::|^std::rt::begin_panic|^core::result::unwrap_failed|^core::option::(unwrap|expect)_failed|^std::process::abort", f):
        return panic(st, "explicit panic: " + f)
    # ---- error construction: opaque ----------------------------------------------------------
    if re.match(r"^(core::fmt::rt::<impl )?Arguments::<'_>::(from_str|new|new_const|new_v1)", f) or f.startswith("Arguments::"):
        return ret(st, Opaque("fmt::Arguments"))
    if re.match(r"^core::fmt::rt::Argument::<'_>::new_", f):
        return ret(st, Opaque("fmt::Argument"))
    if re.match(r"^anyhow::__private::(format_err|must_use)$", f) or re.match(r"^anyhow::Error::(msg|new|from)", f) \
            or re.match(r"^<anyhow::Error as From<.*>>::from$", f) or re.match(r"^anyhow::(__private::)?.*::(context|with_context)", f):
        return ret(st, Opaque("anyhow::Error"))
    if re.match(r"^(std::fmt::format|alloc::fmt::format|std::fmt::format::format_inner)$", f):
        return ret(st, Opaque("String"))
    return None


ENUM_TABLE_EXTRA = {"ControlFlow": ["Continue", "Break"], "Poll": ["Ready", "Pending"]}


# ---------------------------------------------------------------------------------------------
# higher-order std combinators: the closure bodies are taken from the dump
def fork_discr(I, st, opt):
    """[(is_some, state)] for an Option value whose discriminant may be symbolic"""
    d = opt.discr
    if isinstance(d, int):
        return [(d == 1, st)]
    d = z3.simplify(d)
    if z3.is_int_value(d):
        return [(d.as_long() == 1, st)]
    res = []
    for val in (1, 0):
        c = d == val
        if I.feasible(st, c):
            s2 = st.fork()
            s2.assume(c)
            res.append((val == 1, s2))
    return res


def call_closure(I, st, caller, closure_ty, closure_val, cargs):
    body = I.prog.find_closure(closure_ty)
    if body is None:
        raise Unencodable("closure body not found for %s" % closure_ty[:120])
    first = body.params[0][1].strip()
    if first.startswith("&"):
        I.frame_counter += 1
        fr = I.frame_counter
        st.mem[(fr, 0)] = closure_val
        cv = Ref(fr, 0, ())
    else:
        cv = closure_val
    # closures take their arguments as separate MIR params
    args = [cv] + list(cargs)
    if len(body.params) != len(args):
        raise Unencodable("closure arity %d vs %d for %s" % (len(body.params), len(args), body.name))
    I.calls_seen.setdefault("closure " + closure_ty[:100], "mir:" + body.name)
    return I.call_fn(body, args, st)


def generic_args(f):
    """turbofish args of the last segment: `Option::<T>::and_then::<U, {closure@..}>` -> ['U', '{closure@..}']"""
    if not f.endswith(">"):
        return []
    from . import parser as P
    depth = 0
    for i in range(len(f) - 1, -1, -1):
        if f[i] == ">" and not (i > 0 and f[i - 1] in "-="):
            depth += 1
        elif f[i] == "<":
            depth -= 1
            if depth == 0:
                break
    return [x.strip() for x in P.split_top(f[i + 1:-1], ", ")]


def hof_models(I, st, caller, func, args, argtys, dest_ty):
    f = strip_std_paths(func)
    mc = re.match(r"^<(\{closure@.*\}) as (Fn|FnMut|FnOnce)<.*>>::(call|call_mut|call_once)$", f)
    if mc:
        cv = args[0]
        cl = deref_all(I, st, cv) if isinstance(cv, Ref) else cv
        tup = args[1]
        cargs = list(tup.fields) if isinstance(tup, Agg) and tup.kind == "tuple" else [tup]
        return call_closure(I, st, caller, mc.group(1), cl, cargs)
    # (a..).map_while(f).any(g): lazily, one element per loop visit, bounded by the interpreter's unroll count
    m = re.match(r"^<RangeFrom<(u64|usize|u32)> as Iterator>::map_while::<", f)
    if m:
        ga = generic_args(f)
        return ret(st, Agg("iter", "map_while_from", (args[0].fields[0], (ga[-1], args[1]))))
    m = re.match(r"^<MapWhile<RangeFrom<.*>, .*> as Iterator>::any::<", f)
    if m:
        it = deref_all(I, st, args[0])
        start, (cty, cval) = it.fields
        pty = generic_args(f)[-1]
        outs = []
        work = [(st, 0)]
        while work:
            s0, k = work.pop()
            if k >= I.unroll:
                outs.append(Outcome("exhausted", None, s0, "map_while/any over an unbounded range: more than %d elements" % I.unroll))
                continue
            for o in call_closure(I, s0, caller, cty, cval, [z3.simplify(start + k)]):
                if o.kind != "return":
                    outs.append(o)
                    continue
                opt = o.value
                for present, s1 in fork_discr(I, o.state, opt):
                    if not present:
                        outs.append(Outcome("return", z3.BoolVal(False), s1))
                        continue
                    for o2 in call_closure(I, s1, caller, pty, args[1], [opt.payloads[1][0]]):
                        if o2.kind != "return":
                            outs.append(o2)
                            continue
                        b = o2.value
                        if I.feasible(o2.state, b):
                            s2 = o2.state.fork()
                            s2.assume(b)
                            outs.append(Outcome("return", z3.BoolVal(True), s2))
                        if I.feasible(o2.state, z3.Not(b)):
                            s3 = o2.state.fork()
                            s3.assume(z3.Not(b))
                            work.append((s3, k + 1))
        return outs
    if re.match(r"^(core::bool::<impl bool>|bool)::then_some::<", f):
        b = args[0]
        return ret(st, EnumV("Option", z3.If(b, 1, 0) if z3.is_expr(b) else (1 if b else 0), {1: (args[1],)}))
    m0 = re.match(r"^Result::<.*>::or_else::<", f)
    if m0:
        v = deref_all(I, st, args[0])
        ga = generic_args(f)
        clos_ty = next((g for g in ga if "closure@" in g), None)
        outs = []
        for c, idx in split_enum(I, st, v, f):
            s2 = st.fork()
            s2.assume(c)
            if idx == 0:
                outs.append(Outcome("return", v, s2))
            else:
                if clos_ty is None:
                    raise Unencodable("or_else without closure")
                outs.extend(call_closure(I, s2, caller, clos_ty, args[1], [v.payloads[1][0]]))
        return outs
    m = re.match(r"^(Option|Result)::<.*?>::(and_then|map|is_some_and|is_none_or|is_ok_and|map_err|ok_or|ok_or_else|unwrap_or_else|map_or|filter)::<", f)
    if not m:
        m2 = re.match(r"^(Option|Result)::<.*>::(ok_or)::<", f)
        if not m2:
            return None
        m = m2
    kind, op = m.group(1), m.group(2)
    ga = generic_args(f)
    v = deref_all(I, st, args[0])
    good = 1 if kind == "Option" else 0
    outs = []
    clos_ty = next((g for g in ga if "closure@" in g), None)
    for c, idx in split_enum(I, st, v, f):
        s2 = st.fork()
        s2.assume(c)
        isgood = idx == good
        payload = v.payloads.get(idx, (None,))
        if op == "ok_or":
            outs.append(Outcome("return", EnumV("Result", 0, {0: (payload[0],)}) if isgood else EnumV("Result", 1, {1: (args[1],)}), s2))
            continue
        if op in ("ok_or_else", "unwrap_or_else") and clos_ty is not None:
            if isgood:
                outs.append(Outcome("return", EnumV("Result", 0, {0: (payload[0],)}) if op == "ok_or_else" else payload[0], s2))
            else:
                body_ = I.prog.find_closure(clos_ty)
                cargs_ = [] if body_ is not None and len(body_.params) == 1 else [payload[0]] if payload and payload[0] is not None else []
                for o in call_closure(I, s2, caller, clos_ty, args[1], cargs_):
                    if o.kind != "return":
                        outs.append(o)
                    else:
                        outs.append(Outcome("return", EnumV("Result", 1, {1: (o.value,)}) if op == "ok_or_else" else o.value, o.state))
            continue
        if op == "is_none_or" and not isgood:
            outs.append(Outcome("return", z3.BoolVal(True), s2))
            continue
        if op in ("and_then", "map", "is_some_and", "is_ok_and", "filter") and not isgood:
            if op in ("and_then", "map", "filter"):
                outs.append(Outcome("return", v if kind == "Result" else EnumV("Option", 0, {}), s2))
            else:
                outs.append(Outcome("return", z3.BoolVal(False), s2))
            continue
        if op == "map_err" and isgood:
            outs.append(Outcome("return", v, s2))
            continue
        if op == "map_err" and clos_ty is None:
            # fn item as mapper (e.g. an enum constructor): opaque error
            outs.append(Outcome("return", EnumV("Result", 1, {1: (Opaque("error"),)}), s2))
            continue
        if clos_ty is None:
            raise Unencodable("higher-order call without closure type: " + f[:120])
        for o in call_closure(I, s2, caller, clos_ty, args[1], [payload[0]]):
            if o.kind != "return":
                outs.append(o)
                continue
            r = o.value
            if op == "and_then":
                outs.append(Outcome("return", r, o.state))
            elif op == "map":
                outs.append(Outcome("return", EnumV(kind, idx, {idx: (r,)}), o.state))
            elif op in ("is_some_and", "is_ok_and", "is_none_or"):
                outs.append(Outcome("return", r, o.state))
            elif op == "filter":
                keep = z3.simplify(r) if z3.is_expr(r) else z3.BoolVal(bool(r))
                outs.append(Outcome("return", EnumV("Option", 1 if z3.is_true(keep) else 0 if z3.is_false(keep) else z3.If(keep, 1, 0), {1: (payload[0],)}), o.state))
            elif op == "map_err":
                outs.append(Outcome("return", EnumV("Result", 1, {1: (r,)}), o.state))
            else:
                raise Unencodable(f)
    return outs


def abs_models(I, st, caller, func, args, argtys, dest_ty):
    """equality on abstracted values; slog switched off; anyhow errors opaque"""
    f = strip_std_paths(func)
    m = re.match(r"^<(.*) as PartialEq(?:<.*>)?>::(eq|ne)$", f)
    if m and len(args) == 2:
        a = deref_all(I, st, args[0])
        b = deref_all(I, st, args[1])
        if isinstance(a, Abs) and isinstance(b, Abs):
            if a.sort != b.sort:
                raise Unencodable("comparison across sorts %s/%s" % (a.sort, b.sort))
            r = a.term == b.term
            return ret(st, r if m.group(2) == "eq" else z3.Not(r))
    if re.match(r"^(slog::)?__slog_static_max_level$", f):
        return ret(st, Opaque("slog::Level", 0))
    if re.match(r"^(slog::)?FilterLevel::as_usize$", f):
        return ret(st, z3.IntVal(0))  # logging disabled: static filter level Off
    if re.match(r"^(slog::)?Level::as_usize$", f):
        return ret(st, z3.IntVal(9))
    if re.match(r"^<(Result|Option)<.*> as anyhow::Context<.*>>::(context|with_context)", f):
        v = deref_all(I, st, args[0])
        if isinstance(v, EnumV) and norm_type(v.name) == "Result":
            pl = dict(v.payloads)
            pl[1] = (Opaque("anyhow::Error"),)
            return ret(st, EnumV("Result", v.discr, pl))
        if isinstance(v, EnumV) and norm_type(v.name) == "Option":
            d = v.discr
            nd = (0 if d == 1 else 1) if isinstance(d, int) else z3.If(d == 1, 0, 1)
            return ret(st, EnumV("Result", nd, {0: v.payloads.get(1, (None,)), 1: (Opaque("anyhow::Error"),)}))
        raise Unencodable("with_context on %r" % (v,))
    if f.startswith("anyhow::") or re.match(r"^<.* as anyhow::", f) or "anyhow::kind::" in f or "anyhow::__private" in f:
        return ret(st, Opaque("anyhow::Error"))
    return None
