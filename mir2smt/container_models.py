"""Call models for std containers and iterator adaptors, on values of *enumerated length* with symbolic contents.

Vec<T> / [T] / arrays   : Agg(kind in {'vec','array','slice'}, elements)      (length concrete, elements symbolic)
HashSet<T> (scalar T)   : Agg('hashset', elements as inserted)                (membership / len are z3 terms: symbolic keys are fine)
iterators               : Agg('iter', (source, position, mode, extra))        mode: own | ref | filter_map | map | enumerate | zip
The closure bodies of adaptors are taken from the dump.  Everything else about the containers (allocation,
capacity, hashing, ordering of a HashSet) is abstracted away: that is part of the claim and listed in the evidence.
"""
import re

import z3

from .interp import Agg, EnumV, Ref, Opaque, Abs, Outcome, Unencodable, UNIT, norm_type
from .models import ret, panic, deref_all, strip_std_paths, mk_option, split_enum, call_closure, generic_args

SEQ = ("vec", "array", "slice")


def is_seq(v):
    return isinstance(v, Agg) and v.kind in SEQ + ("btreeset",)


def mk_iter(source, pos, mode, extra=()):
    return Agg("iter", mode, (source, pos, extra))


def seq_of(I, st, v):
    """returns (sequence Agg, ref-or-None)"""
    if isinstance(v, Ref):
        tgt = I.load(st, v)
        if isinstance(tgt, Ref):
            return seq_of(I, st, tgt)
        if is_seq(tgt):
            return tgt, v
        raise Unencodable("not a sequence behind reference: %r" % (tgt,))
    if is_seq(v):
        return v, None
    raise Unencodable("not a sequence: %r" % (v,))


def iter_next(I, st, caller, it):
    """advance iterator value `it`; returns list of (state, new_iter, item or None)"""
    mode = it.name
    src, pos, extra = it.fields
    if mode in ("own", "ref"):
        seq, ref = seq_of(I, st, src)
        if pos >= len(seq.fields):
            return [(st, it, None)]
        nit = mk_iter(src, pos + 1, mode, extra)
        if mode == "own":
            return [(st, nit, seq.fields[pos])]
        if ref is None:
            I.frame_counter += 1
            fr = I.frame_counter
            st.mem[(fr, 0)] = seq
            ref = Ref(fr, 0, ())
            nit = mk_iter(ref, pos + 1, mode, extra)
        return [(st, nit, Ref(ref.frame, ref.local, tuple(ref.projs) + (("constindex", pos, 0),)))]
    if mode == "map_deref":
        res = []
        for s2, inner2, item in iter_next(I, st, caller, src):
            res.append((s2, mk_iter(inner2, pos, mode, extra), item if item is None or isinstance(item, Outcome) else deref_all(I, s2, item)))
        return res
    if mode == "enumerate":
        res = []
        for s2, inner2, item in iter_next(I, st, caller, src):
            if item is None:
                res.append((s2, mk_iter(inner2, pos, mode, extra), None))
            else:
                res.append((s2, mk_iter(inner2, pos + 1, mode, extra), Agg("tuple", None, (z3.IntVal(pos), item))))
        return res
    if mode == "zip":
        res = []
        for s2, a2, ia in iter_next(I, st, caller, src):
            if ia is None:
                res.append((s2, mk_iter(a2, pos, mode, extra), None))
                continue
            for s3, b2, ib in iter_next(I, s2, caller, extra[0]):
                if ib is None:
                    res.append((s3, mk_iter(a2, pos, mode, (b2,)), None))
                else:
                    res.append((s3, mk_iter(a2, pos + 1, mode, (b2,)), Agg("tuple", None, (ia, ib))))
        return res
    if mode in ("map", "filter_map", "filter"):
        clos_val, clos_ty = extra
        res = []
        for s2, inner2, item in iter_next(I, st, caller, src):
            if item is None:
                res.append((s2, mk_iter(inner2, pos, mode, extra), None))
                continue
            cargs = [item]
            if mode == "filter":
                I.frame_counter += 1
                fr = I.frame_counter
                s2.mem[(fr, 0)] = item
                cargs = [Ref(fr, 0, ())]
            for o in call_closure(I, s2, caller, clos_ty, clos_val, cargs):
                nit = mk_iter(inner2, pos + 1, mode, extra)
                if o.kind != "return":
                    res.append((o.state, nit, o))  # a panicking closure: the Outcome itself travels as the item
                    continue
                if mode == "map":
                    res.append((o.state, nit, o.value))
                elif mode == "filter_map":
                    for c, idx in split_enum(I, o.state, o.value, "filter_map closure result"):
                        s3 = o.state.fork()
                        s3.assume(c)
                        if idx == 1:
                            res.append((s3, nit, o.value.payloads[1][0]))
                        else:
                            res.extend(iter_next(I, s3, caller, nit))
                else:
                    for cond, keep in ((o.value, True), (z3.Not(o.value), False)):
                        if I.feasible(o.state, cond):
                            s3 = o.state.fork()
                            s3.assume(cond)
                            if keep:
                                res.append((s3, nit, item))
                            else:
                                res.extend(iter_next(I, s3, caller, nit))
        return res
    raise Unencodable("iterator mode " + mode)


def drain(I, st, caller, it):
    """collect all items: list of (state, [items])"""
    work = [(st, it, [])]
    done = []
    guard = 0
    while work:
        s, cur, acc = work.pop()
        guard += 1
        if guard > 20000:
            raise Unencodable("iterator drain budget")
        for s2, nit, item in iter_next(I, s, caller, cur):
            if item is None:
                done.append((s2, acc))
            elif isinstance(item, Outcome):
                done.append((s2, item))
            else:
                work.append((s2, nit, acc + [item]))
    return done


def hs_contains(elems, v):
    return z3.Or([e == v for e in elems]) if elems else z3.BoolVal(False)


def hs_len(elems):
    n = z3.IntVal(0)
    for i, e in enumerate(elems):
        n = n + z3.If(z3.And([e != x for x in elems[:i]]) if i else z3.BoolVal(True), 1, 0)
    return n


def container_models(I, st, caller, func, args, argtys, dest_ty):
    f = strip_std_paths(func).replace("std::slice::<impl", "core::slice::<impl").replace("alloc::slice::<impl", "core::slice::<impl")
    # ---- Vec / slices -------------------------------------------------------------------------------------------
    if re.match(r"^Vec::<.*>::new$", f):
        return ret(st, Agg("vec", None, ()))
    if re.match(r"^Vec::<.*>::with_capacity$", f):
        st.trace = st.trace + (("Vec::with_capacity", (args[0],), None),)
        return ret(st, Agg("vec", None, ()))
    if re.match(r"^Vec::<.*>::push$", f):
        v = I.load(st, args[0])
        I.store(st, args[0], Agg("vec", None, tuple(v.fields) + (args[1],)))
        return ret(st, UNIT)
    if re.match(r"^(Vec::<.*>|core::slice::<impl \[.*\]>)::(len|is_empty)$", f):
        seq, _ = seq_of(I, st, args[0])
        n = len(seq.fields)
        return ret(st, z3.IntVal(n) if f.endswith("len") else z3.BoolVal(n == 0))
    if re.match(r"^<Vec<.*> as (Deref|DerefMut|AsRef<.*>|Borrow<.*>)>::", f) or re.match(r"^Vec::<.*>::(as_slice|as_mut_slice)$", f):
        return ret(st, args[0])
    if re.match(r"^<(Vec<.*>|\[.*\]) as Clone>::clone$", f) or re.match(r"^core::slice::<impl \[.*\]>::to_vec$", f):
        seq, _ = seq_of(I, st, args[0])
        return ret(st, Agg("vec", None, seq.fields))
    if re.match(r"^core::slice::<impl \[.*\]>::last$", f):
        seq, ref = seq_of(I, st, args[0])
        if not seq.fields:
            return ret(st, mk_option(False))
        if ref is None:
            I.frame_counter += 1
            st.mem[(I.frame_counter, 0)] = seq
            ref = Ref(I.frame_counter, 0, ())
        return ret(st, mk_option(True, Ref(ref.frame, ref.local, tuple(ref.projs) + (("constindex", len(seq.fields) - 1, 0),))))
    if re.match(r"^<Vec<.*> as IntoIterator>::into_iter$", f):
        return ret(st, mk_iter(args[0], 0, "own"))
    if re.match(r"^<&(mut )?(Vec<.*>|\[.*\]) as IntoIterator>::into_iter$", f) or re.match(r"^core::slice::<impl \[.*\]>::iter(_mut)?$", f):
        return ret(st, mk_iter(args[0], 0, "ref"))
    if re.match(r"^<.* as IntoIterator>::into_iter$", f) and isinstance(args[0], Agg) and args[0].kind == "iter":
        return ret(st, args[0])
    m = re.match(r"^<(.*) as Iterator>::next$", f)
    if m:
        it = I.load(st, args[0])
        if isinstance(it, Agg) and it.kind == "iter":
            outs = []
            for s2, nit, item in iter_next(I, st.fork(), caller, it):
                if isinstance(item, Outcome):
                    outs.append(item)
                    continue
                I.store(s2, args[0], nit)
                outs.append(Outcome("return", mk_option(item is not None, item), s2))
            return outs
    m = re.match(r"^<(.*) as Iterator>::(map|filter_map|filter)::<", f)
    if m and isinstance(args[0], Agg) and args[0].kind == "iter":
        ga = generic_args(f)
        clos_ty = next((g for g in ga if "closure@" in g), None)
        if clos_ty is None:
            raise Unencodable("iterator adaptor with a non-closure function: " + f[:100])
        return ret(st, mk_iter(args[0], 0, m.group(2), (args[1], clos_ty)))
    if re.match(r"^<(.*) as Iterator>::take$", f) and isinstance(args[0], Agg) and args[0].kind == "iter":
        # take(n): drain the source (bounded lists) and keep the first n items; a symbolic n forks on its value up to the list length
        outs = []
        for s2, items in drain(I, st.fork(), caller, args[0]):
            if isinstance(items, Outcome):
                outs.append(items)
                continue
            n = z3.simplify(args[1]) if z3.is_expr(args[1]) else z3.IntVal(args[1])
            if z3.is_int_value(n):
                outs.append(Outcome("return", mk_iter(Agg("vec", None, tuple(items[:n.as_long()])), 0, "own"), s2))
                continue
            for j in range(len(items) + 1):
                cond = (n == j) if j < len(items) else (n >= j)
                if I.feasible(s2, cond):
                    s3 = s2.fork()
                    s3.assume(cond)
                    outs.append(Outcome("return", mk_iter(Agg("vec", None, tuple(items[:j])), 0, "own"), s3))
        return outs
    if re.match(r"^<(.*) as Iterator>::enumerate$", f) and isinstance(args[0], Agg) and args[0].kind == "iter":
        return ret(st, mk_iter(args[0], 0, "enumerate"))
    if re.match(r"^<(.*) as Iterator>::zip::<", f) and isinstance(args[0], Agg) and args[0].kind == "iter":
        other = args[1]
        if not (isinstance(other, Agg) and other.kind == "iter"):
            raise Unencodable("zip with non-iterator")
        return ret(st, mk_iter(args[0], 0, "zip", (other,)))
    m = re.match(r"^<(.*) as Iterator>::collect::<(.*)>$", f)
    if m and isinstance(args[0], Agg) and args[0].kind == "iter":
        target = norm_type(m.group(2))
        outs = []
        for s2, items in drain(I, st.fork(), caller, args[0]):
            if isinstance(items, Outcome):
                outs.append(items)
                continue
            if target.startswith("Vec<"):
                outs.append(Outcome("return", Agg("vec", None, tuple(items)), s2))
            elif target.startswith("Result<Vec<"):
                # collect::<Result<Vec<_>,E>>: first Err wins
                vals = []
                res = None
                work = [(s2, 0, [])]
                while work:
                    s3, i, acc = work.pop()
                    if i == len(items):
                        outs.append(Outcome("return", EnumV("Result", 0, {0: (Agg("vec", None, tuple(acc)),)}), s3))
                        continue
                    for c, idx in split_enum(I, s3, items[i], "collect Result"):
                        s4 = s3.fork()
                        s4.assume(c)
                        if idx == 0:
                            work.append((s4, i + 1, acc + [items[i].payloads[0][0]]))
                        else:
                            outs.append(Outcome("return", EnumV("Result", 1, {1: items[i].payloads.get(1, (Opaque("error"),))}), s4))
            elif target.startswith("HashSet<"):
                outs.append(Outcome("return", Agg("hashset", None, tuple(deref_all(I, s2, x) for x in items)), s2))
            elif target.startswith(("Result<BTreeSet<", "BTreeSet<")):
                wrapped = target.startswith("Result<")
                from . import parser as P
                inner_t = target[len("Result<"):] if wrapped else target
                ety = P.split_top(inner_t[inner_t.index("<") + 1:], ",")[0].rstrip(">") if False else inner_t[inner_t.index("<") + 1:].split(">")[0]
                work = [(s2, 0, ())]
                while work:
                    s3, i, cur = work.pop()
                    if i == len(items):
                        setv = Agg("btreeset", None, cur)
                        outs.append(Outcome("return", EnumV("Result", 0, {0: (setv,)}) if wrapped else setv, s3))
                        continue
                    itv = items[i]
                    cases = [(s3, itv)]
                    if wrapped:
                        cases = []
                        for c, idx in split_enum(I, s3, itv, "collect Result<BTreeSet>"):
                            s4 = s3.fork()
                            s4.assume(c)
                            if idx == 0:
                                cases.append((s4, itv.payloads[0][0]))
                            else:
                                outs.append(Outcome("return", EnumV("Result", 1, {1: itv.payloads.get(1, (Opaque("error"),))}), s4))
                    for s4, x in cases:
                        # sorted insertion with the element's own Ord::cmp
                        w2 = [(s4, 0)]
                        while w2:
                            s5, j = w2.pop()
                            if j == len(cur):
                                work.append((s5, i + 1, cur + (x,)))
                                continue
                            for s6, o in elem_cmp(I, s5, caller, ety, x, cur[j]):
                                if o == -1:
                                    work.append((s6, i + 1, cur[:j] + (x,) + cur[j:]))
                                elif o == 0:
                                    work.append((s6, i + 1, cur))
                                else:
                                    w2.append((s6, j + 1))
            elif target.startswith(("BTreeMap<", "HashMap<")):
                # insert the (key, value) pairs one by one: a later equal key replaces the earlier value
                from . import parser as P
                kind = "btreemap" if target.startswith("BTreeMap<") else "hashmap"
                keyty = P.split_top(target[target.index("<") + 1:-1], ",")[0]
                work = [(s2, 0, [])]
                while work:
                    s3, i, ents = work.pop()
                    if i == len(items):
                        outs.append(Outcome("return", Agg(kind, None, tuple(ents)), s3))
                        continue
                    kv = deref_all(I, s3, items[i])
                    k_, v_ = kv.fields
                    for s4, j in lookup(I, s3.fork(), caller, keyty, ents, k_):
                        e2 = list(ents)
                        if j is None:
                            e2.append(Agg("tuple", None, (k_, v_)))
                        else:
                            e2[j] = Agg("tuple", None, (e2[j].fields[0], v_))
                        work.append((s4, i + 1, e2))
            else:
                raise Unencodable("collect into " + target)
        return outs
    m = re.match(r"^<(.*) as Iterator>::(all|any)::<", f)
    if m and isinstance(I.load(st, args[0]) if isinstance(args[0], Ref) else args[0], Agg):
        it = I.load(st, args[0]) if isinstance(args[0], Ref) else args[0]
        ga = generic_args(f)
        clos_ty = next((g for g in ga if "closure@" in g), None)
        outs = []
        for s2, items in drain(I, st.fork(), caller, it):
            work = [(s2, 0, [])]
            while work:
                s3, i, conds = work.pop()
                if i == len(items):
                    r = z3.And(conds) if m.group(2) == "all" else z3.Or(conds)
                    outs.append(Outcome("return", z3.simplify(r) if conds else z3.BoolVal(m.group(2) == "all"), s3))
                    continue
                for o in call_closure(I, s3, caller, clos_ty, args[1], [items[i]]):
                    if o.kind != "return":
                        raise Unencodable("closure in all/any did not return")
                    work.append((o.state, i + 1, conds + [o.value]))
        return outs
    # ---- indexing ---------------------------------------------------------------------------------------------------
    m = re.match(r"^<(Vec<.*>|\[.*\]) as Index(Mut)?<usize>>::index(_mut)?$", f)
    if m:
        seq, ref = seq_of(I, st, args[0])
        iv = z3.simplify(args[1])
        if not z3.is_int_value(iv):
            raise Unencodable("symbolic index into a Vec")
        i = iv.as_long()
        if i >= len(seq.fields):
            return panic(st, "index out of bounds")
        if ref is None:
            I.frame_counter += 1
            fr = I.frame_counter
            st.mem[(fr, 0)] = seq
            ref = Ref(fr, 0, ())
        return ret(st, Ref(ref.frame, ref.local, tuple(ref.projs) + (("constindex", i, 0),)))
    # ---- HashSet of scalars -----------------------------------------------------------------------------------------
    if re.match(r"^HashSet::<.*>::new$", f):
        return ret(st, Agg("hashset", None, ()))
    if re.match(r"^HashSet::<.*>::insert$", f):
        hs = I.load(st, args[0])
        v = deref_all(I, st, args[1])
        if isinstance(v, Abs):
            v = v.term
        fresh = z3.Not(hs_contains(list(hs.fields), v))
        I.store(st, args[0], Agg("hashset", None, tuple(hs.fields) + (v,)))
        return ret(st, z3.simplify(fresh))
    if re.match(r"^HashSet::<.*>::contains::<", f):
        hs = deref_all(I, st, args[0])
        v = deref_all(I, st, args[1])
        if isinstance(v, Abs):
            v = v.term
        return ret(st, hs_contains(list(hs.fields), v))
    if re.match(r"^HashSet::<.*>::(len|is_empty)$", f):
        hs = deref_all(I, st, args[0])
        n = hs_len(list(hs.fields))
        return ret(st, n if f.endswith("len") else n == 0)
    return None


# ---------------------------------------------------------------------------------------------------------------------
# maps and sets with *symbolic keys*: a lookup forks over "which stored key equals the probe" (keys pairwise distinct by
# construction); key equality of struct keys is the type's own PartialEq body from the dump; BTreeMap iteration forks over
# the feasible key orders.  Hash is assumed consistent with Eq (std's contract for HashMap / HashSet).
def key_eq(I, st, caller, keyty, a, b):
    """[(state, z3 Bool)]: a == b for map keys (scalars directly, structs through their PartialEq)"""
    va, vb = deref_all(I, st, a), deref_all(I, st, b)
    if z3.is_expr(va) and z3.is_expr(vb):
        return [(st, va == vb)]
    if isinstance(va, Abs) and isinstance(vb, Abs):
        return [(st, va.term == vb.term)]
    ty = keyty.lstrip("&").strip()
    I.frame_counter += 1
    fr = I.frame_counter
    st.mem[(fr, 0)] = va
    st.mem[(fr, 1)] = vb
    outs = I.dispatch_call(st, caller, "<%s as PartialEq>::eq" % ty, [Ref(fr, 0, ()), Ref(fr, 1, ())], ["&" + ty, "&" + ty], "bool")
    res = []
    for o in outs:
        if o.kind != "return":
            raise Unencodable("PartialEq::eq of a map key did not return")
        res.append((o.state, o.value))
    return res


def lookup(I, st, caller, keyty, entries, probe):
    """fork: [(state, index or None)]"""
    work = [(st, 0, [])]
    res = []
    while work:
        s, i, neqs = work.pop()
        if i == len(entries):
            res.append((s, None))
            continue
        k = entries[i].fields[0]
        for s2, c in key_eq(I, s, caller, keyty, k, probe):
            c = z3.simplify(c) if z3.is_expr(c) else z3.BoolVal(bool(c))
            if I.feasible(s2, c):
                s3 = s2.fork()
                s3.assume(c)
                res.append((s3, i))
            nc = z3.simplify(z3.Not(c))
            if I.feasible(s2, nc):
                s4 = s2.fork()
                s4.assume(nc)
                work.append((s4, i + 1, neqs))
    return res


def map_type_args(f):
    m = re.match(r"^(BTreeMap|HashMap|HashSet)::<(.*)>::(\w+)(::<.*>)?$", f)
    if not m:
        return None
    from . import parser as P
    ga = [x.strip() for x in P.split_top(m.group(2), ", ")]
    return m.group(1), ga, m.group(3)


def entry_ref(mapref, i, field):
    return Ref(mapref.frame, mapref.local, tuple(mapref.projs) + (("constindex", i, 0), ("field", field, "")))


def map_models(I, st, caller, func, args, argtys, dest_ty):
    f = strip_std_paths(func)
    mt = map_type_args(f)
    if mt:
        kind, ga, op = mt
        keyty = ga[0]
        mkind = kind.lower()
        if op == "new":
            return ret(st, Agg(mkind, None, ()))
        if kind in ("BTreeMap", "HashMap") and op in ("get", "get_mut", "contains_key", "remove"):
            mp = I.load(st, args[0])
            outs = []
            for s2, i in lookup(I, st.fork(), caller, keyty, list(mp.fields), args[1]):
                if op == "contains_key":
                    outs.append(Outcome("return", z3.BoolVal(i is not None), s2))
                elif i is None:
                    outs.append(Outcome("return", mk_option(False), s2))
                elif op == "remove":
                    ent = list(mp.fields)
                    v = ent.pop(i).fields[1]
                    I.store(s2, args[0], Agg(mkind, None, tuple(ent)))
                    outs.append(Outcome("return", mk_option(True, v), s2))
                else:
                    outs.append(Outcome("return", mk_option(True, entry_ref(args[0], i, 1)), s2))
            return outs
        if kind in ("BTreeMap", "HashMap") and op == "insert":
            mp = I.load(st, args[0])
            outs = []
            for s2, i in lookup(I, st.fork(), caller, keyty, list(mp.fields), args[1]):
                ent = list(mp.fields)
                if i is None:
                    ent.append(Agg("tuple", None, (args[1], args[2])))
                    I.store(s2, args[0], Agg(mkind, None, tuple(ent)))
                    outs.append(Outcome("return", mk_option(False), s2))
                else:
                    old = ent[i].fields[1]
                    ent[i] = Agg("tuple", None, (ent[i].fields[0], args[2]))
                    I.store(s2, args[0], Agg(mkind, None, tuple(ent)))
                    outs.append(Outcome("return", mk_option(True, old), s2))
            return outs
        if kind in ("BTreeMap", "HashMap") and op in ("len", "is_empty"):
            mp = deref_all(I, st, args[0])
            return ret(st, z3.IntVal(len(mp.fields)) if op == "len" else z3.BoolVal(len(mp.fields) == 0))
        if kind == "BTreeMap" and op in ("values", "keys", "iter"):
            mp = I.load(st, args[0])
            n = len(mp.fields)
            import itertools
            outs = []

            def keyterm(k_):
                k_ = deref_all(I, st, k_)
                if isinstance(k_, EnumV) and not any(k_.payloads.values()):
                    # fieldless enum with derived Ord: ordered by discriminant
                    return k_.discr if z3.is_expr(k_.discr) else z3.IntVal(k_.discr)
                if isinstance(k_, Abs):
                    return k_.term  # abstract keys: a total order on identities
                return k_
            allk = [z3.simplify(keyterm(e.fields[0])) if z3.is_expr(keyterm(e.fields[0])) else keyterm(e.fields[0]) for e in mp.fields]
            if all(z3.is_expr(k_) and z3.is_int_value(k_) for k_ in allk):
                perms = [tuple(sorted(range(n), key=lambda p: allk[p].as_long()))]
            else:
                perms = itertools.permutations(range(n))
            for perm in perms:
                ks = [allk[p] for p in perm]
                cond = z3.And([ks[j] < ks[j + 1] for j in range(n - 1)]) if n > 1 else z3.BoolVal(True)
                if I.feasible(st, cond):
                    s2 = st.fork()
                    s2.assume(cond)
                    if op == "values":
                        items = [entry_ref(args[0], p, 1) for p in perm]
                    elif op == "keys":
                        items = [entry_ref(args[0], p, 0) for p in perm]
                    else:
                        items = [Agg("tuple", None, (entry_ref(args[0], p, 0), entry_ref(args[0], p, 1))) for p in perm]
                    outs.append(Outcome("return", mk_iter(Agg("vec", None, tuple(items)), 0, "own"), s2))
            return outs
        if kind == "HashSet" and op in ("contains", "insert") and not (norm_type(keyty) in ("u64", "usize", "u32", "u8")):
            hs = I.load(st, args[0])
            ents = [Agg("tuple", None, (e, None)) for e in hs.fields]
            outs = []
            for s2, i in lookup(I, st.fork(), caller, keyty, ents, args[1]):
                if op == "contains":
                    outs.append(Outcome("return", z3.BoolVal(i is not None), s2))
                else:
                    if i is None:
                        I.store(s2, args[0], Agg("hashset", None, tuple(hs.fields) + (deref_all(I, s2, args[1]) if isinstance(args[1], Ref) else args[1],)))
                    outs.append(Outcome("return", z3.BoolVal(i is None), s2))
            return outs
    m = re.match(r"^<&?BTreeMap<.*> as IntoIterator>::into_iter$", f)
    if m and isinstance(deref_all(I, st, args[0]), Agg) and deref_all(I, st, args[0]).kind == "btreemap":
        # (key, value) pairs in key order; abstract / string keys are ordered through their terms
        mp = deref_all(I, st, args[0])
        n = len(mp.fields)
        import itertools
        kt = lambda k_: k_.term if isinstance(k_, Abs) else k_
        outs = []
        for perm in itertools.permutations(range(n)):
            ks = [kt(deref_all(I, st, mp.fields[p].fields[0])) for p in perm]
            cond = z3.And([ks[j] < ks[j + 1] for j in range(n - 1)]) if n > 1 else z3.BoolVal(True)
            if I.feasible(st, cond):
                s2 = st.fork()
                s2.assume(cond)
                outs.append(Outcome("return", mk_iter(Agg("vec", None, tuple(Agg("tuple", None, (mp.fields[p].fields[0], mp.fields[p].fields[1])) for p in perm)), 0, "own"), s2))
        return outs
    m = re.match(r"^BTreeMap::<.*>::(into_values|into_keys)$", f)
    if m:
        mp = args[0]
        n = len(mp.fields)
        import itertools
        outs = []
        for perm in itertools.permutations(range(n)):
            ks = [deref_all(I, st, mp.fields[p].fields[0]) for p in perm]
            cond = z3.And([ks[j] < ks[j + 1] for j in range(n - 1)]) if n > 1 else z3.BoolVal(True)
            if I.feasible(st, cond):
                s2 = st.fork()
                s2.assume(cond)
                fi = 1 if m.group(1) == "into_values" else 0
                outs.append(Outcome("return", mk_iter(Agg("vec", None, tuple(mp.fields[p].fields[fi] for p in perm)), 0, "own"), s2))
        return outs
    if re.match(r"^<HashSet<.*> as IntoIterator>::into_iter$", f):
        hs = args[0]
        return ret(st, mk_iter(Agg("vec", None, hs.fields), 0, "own"))
    if re.match(r"^(std::boxed::)?Box::<.*>::new_uninit$", f):
        I.frame_counter += 1
        fr = I.frame_counter
        st.mem[(fr, 0)] = None
        return ret(st, Agg("adt", "Box", (Agg("adt", "Unique", (Ref(fr, 0, (), True),)),)))
    if re.match(r"^(std::boxed::)?box_assume_init_into_vec_unsafe::<", f):
        cell = args[0].fields[0].fields[0]
        v = st.mem.get((cell.frame, cell.local))

        def find_array(x):
            if isinstance(x, Agg) and x.kind == "array":
                return x
            if isinstance(x, Agg):
                for y in x.fields:
                    r = find_array(y)
                    if r is not None:
                        return r
            return None
        arr = find_array(v)
        if arr is None:
            raise Unencodable("vec! lowering: array not found in the box")
        return ret(st, Agg("vec", None, arr.fields))
    m = re.match(r"^(Vec::<.*>|core::slice::<impl \[.*\]>)::contains$", f.replace("std::slice::<impl", "core::slice::<impl"))
    if m:
        seq, _ = seq_of(I, st, args[0])
        x = deref_all(I, st, args[1])
        if z3.is_expr(x):
            return ret(st, z3.Or([deref_all(I, st, e) == x for e in seq.fields]) if seq.fields else z3.BoolVal(False))
    m = re.match(r"^core::slice::<impl \[(u64|usize|u32|u8)\]>::binary_search$", f.replace("std::slice::<impl", "core::slice::<impl"))
    if m:
        # the algorithm of core::slice::binary_search_by (rustc 1.9x): on an unsorted slice the result is unspecified by
        # the documentation but deterministic; it is reproduced step by step, forking on every comparison
        seq, _ = seq_of(I, st, args[0])
        x = deref_all(I, st, args[1])
        els = [deref_all(I, st, e) for e in seq.fields]
        n = len(els)
        if n == 0:
            return ret(st, EnumV("Result", 1, {1: (z3.IntVal(0),)}))
        outs = []
        work = [(st.fork(), n, 0)]
        while work:
            s, size, base = work.pop()
            if size > 1:
                half = size // 2
                mid = base + half
                for cond, nb in ((els[mid] > x, base), (els[mid] <= x, mid)):
                    if I.feasible(s, cond):
                        s2 = s.fork()
                        s2.assume(cond)
                        work.append((s2, size - half, nb))
                continue
            for cond, res in ((els[base] == x, EnumV("Result", 0, {0: (z3.IntVal(base),)})),
                              (els[base] < x, EnumV("Result", 1, {1: (z3.IntVal(base + 1),)})),
                              (els[base] > x, EnumV("Result", 1, {1: (z3.IntVal(base),)}))):
                if I.feasible(s, cond):
                    s2 = s.fork()
                    s2.assume(cond)
                    outs.append(Outcome("return", res, s2))
        return outs
    m = re.match(r"^<(usize|u64|u32) as TryInto<(usize|u64|u128)>>::try_into$", f)
    if m:
        return ret(st, EnumV("Result", 0, {0: (args[0],)}))
    m = re.match(r"^<Vec<(u64|usize|u8|u32)> as PartialEq>::(eq|ne)$", f)
    if m:
        a, _ = seq_of(I, st, args[0])
        b, _ = seq_of(I, st, args[1])
        r = z3.And([x == y for x, y in zip(a.fields, b.fields)]) if len(a.fields) == len(b.fields) and a.fields else z3.BoolVal(len(a.fields) == len(b.fields))
        return ret(st, r if m.group(2) == "eq" else z3.Not(r))
    return None


# ---------------------------------------------------------------------------------------------------------------------
# BTreeSet<T> with symbolic elements: kept sorted by the element type's *own* Ord::cmp body from the dump.
def elem_cmp(I, st, caller, ty, a, b):
    """[(state, ordering int -1/0/1)]: forks over the result of <T as Ord>::cmp(a, b)"""
    ty = ty.strip().lstrip("&")
    I.frame_counter += 1
    fr = I.frame_counter
    st.mem[(fr, 0)] = deref_all(I, st, a)
    st.mem[(fr, 1)] = deref_all(I, st, b)
    res = []
    for o in I.dispatch_call(st, caller, "<%s as Ord>::cmp" % ty, [Ref(fr, 0, ()), Ref(fr, 1, ())], ["&" + ty, "&" + ty], "Ordering"):
        if o.kind != "return":
            raise Unencodable("Ord::cmp of a set element did not return")
        for c, idx in split_enum(I, o.state, o.value, "Ord::cmp"):
            s2 = o.state.fork()
            s2.assume(c)
            res.append((s2, idx))
    return res


def btreeset_models(I, st, caller, func, args, argtys, dest_ty):
    f = strip_std_paths(func)
    m = re.match(r"^BTreeSet::<(.*)>::(\w+)(::<.*>)?$", f)
    if m:
        ty, op = m.group(1), m.group(2)
        if op == "new":
            return ret(st, Agg("btreeset", None, ()))
        if op == "insert":
            cur = I.load(st, args[0])
            x = args[1]
            outs = []
            work = [(st.fork(), 0)]
            while work:
                s, i = work.pop()
                if i == len(cur.fields):
                    I.store(s, args[0], Agg("btreeset", None, tuple(cur.fields) + (x,)))
                    outs.append(Outcome("return", z3.BoolVal(True), s))
                    continue
                for s2, o in elem_cmp(I, s, caller, ty, x, cur.fields[i]):
                    if o == -1:
                        I.store(s2, args[0], Agg("btreeset", None, tuple(cur.fields[:i]) + (x,) + tuple(cur.fields[i:])))
                        outs.append(Outcome("return", z3.BoolVal(True), s2))
                    elif o == 0:
                        outs.append(Outcome("return", z3.BoolVal(False), s2))
                    else:
                        work.append((s2, i + 1))
            return outs
        if op in ("len", "is_empty"):
            v = deref_all(I, st, args[0])
            return ret(st, z3.IntVal(len(v.fields)) if op == "len" else z3.BoolVal(len(v.fields) == 0))
        if op == "iter":
            return ret(st, mk_iter(args[0], 0, "ref"))
        if op == "contains":
            v = deref_all(I, st, args[0])
            outs = []
            work = [(st.fork(), 0)]
            while work:
                s, i = work.pop()
                if i == len(v.fields):
                    outs.append(Outcome("return", z3.BoolVal(False), s))
                    continue
                for s2, o in elem_cmp(I, s, caller, ty, args[1], v.fields[i]):
                    if o == 0:
                        outs.append(Outcome("return", z3.BoolVal(True), s2))
                    else:
                        work.append((s2, i + 1))
            return outs
    if re.match(r"^<BTreeSet<.*> as Default>::default$", f):
        return ret(st, Agg("btreeset", None, ()))
    if re.match(r"^<HashSet<.*> as Default>::default$", f):
        return ret(st, Agg("hashset", None, ()))
    if re.match(r"^<&?BTreeSet<.*> as IntoIterator>::into_iter$", f):
        return ret(st, mk_iter(args[0], 0, "ref" if isinstance(args[0], Ref) else "own"))
    # iterator consumers used with sets
    m = re.match(r"^<(.*) as Iterator>::try_fold::<", f)
    if m and isinstance(args[0] if not isinstance(args[0], Ref) else I.load(st, args[0]), Agg):
        it = I.load(st, args[0]) if isinstance(args[0], Ref) else args[0]
        ga = generic_args(f)
        clos_ty = next((g for g in ga if "closure@" in g), None)
        outs = []
        for s2, items in drain(I, st.fork(), caller, it):
            work = [(s2, 0, args[1])]
            while work:
                s3, i, acc = work.pop()
                if i == len(items):
                    outs.append(Outcome("return", EnumV("Result", 0, {0: (acc,)}), s3))
                    continue
                for o in call_closure(I, s3, caller, clos_ty, args[2], [acc, items[i]]):
                    if o.kind != "return":
                        outs.append(o)
                        continue
                    for c, idx in split_enum(I, o.state, o.value, "try_fold step"):
                        s4 = o.state.fork()
                        s4.assume(c)
                        if norm_type(o.value.name) == "Option":
                            good = idx == 1
                        else:
                            good = idx == 0
                        if good:
                            work.append((s4, i + 1, o.value.payloads[idx][0]))
                        else:
                            outs.append(Outcome("return", o.value, s4))
        return outs
    m = re.match(r"^<(.*) as Iterator>::sum::<(u8|u16|u32|u64|u128|usize|i64|i128)>$", f)
    if m and isinstance(args[0], Agg) and args[0].kind == "iter":
        from .symval import INT_TYPES
        lo, hi = INT_TYPES[m.group(2)]
        outs = []
        for s2, items in drain(I, st.fork(), caller, args[0]):
            if isinstance(items, Outcome):
                outs.append(items)
                continue
            vals = [deref_all(I, s2, x) for x in items]
            if not all(z3.is_expr(v) and z3.is_int(v) for v in vals):
                raise Unencodable("Iterator::sum over non-integer values")
            # std: fold with `+` — every partial sum overflowing the item type panics with overflow checks on
            partial = z3.IntVal(0)
            ovf = []
            for v in vals:
                partial = partial + v
                ovf.append(z3.Or(partial > hi, partial < lo))
            bad = z3.simplify(z3.Or(ovf)) if ovf else z3.BoolVal(False)
            if I.feasible(s2, bad):
                s3 = s2.fork()
                s3.assume(bad)
                outs.append(Outcome("panic", None, s3, "attempt to add with overflow (Iterator::sum)"))
            if I.feasible(s2, z3.Not(bad)):
                s4 = s2.fork()
                s4.assume(z3.Not(bad))
                outs.append(Outcome("return", z3.simplify(partial), s4))
        return outs
    m = re.match(r"^<(.*) as Iterator>::(position|nth|cloned|copied|count)(::<.*>)?$", f)
    if m:
        it = I.load(st, args[0]) if isinstance(args[0], Ref) else args[0]
        if isinstance(it, Agg) and it.kind == "iter":
            op = m.group(2)
            if op in ("cloned", "copied"):
                return ret(st, mk_iter(it, 0, "map_deref"))
            outs = []
            for s2, items in drain(I, st.fork(), caller, it):
                if op == "count":
                    outs.append(Outcome("return", z3.IntVal(len(items)), s2))
                elif op == "nth":
                    n = z3.simplify(args[1])
                    if z3.is_int_value(n):
                        k = n.as_long()
                        outs.append(Outcome("return", mk_option(k < len(items), items[k] if k < len(items) else None), s2))
                    else:
                        for k in range(len(items) + 1):
                            c = (args[1] == k) if k < len(items) else (args[1] >= len(items))
                            if I.feasible(s2, c):
                                s3 = s2.fork()
                                s3.assume(c)
                                outs.append(Outcome("return", mk_option(k < len(items), items[k] if k < len(items) else None), s3))
                else:
                    ga = generic_args(f)
                    clos_ty = next((g for g in ga if "closure@" in g), None)
                    work = [(s2, 0)]
                    while work:
                        s3, i = work.pop()
                        if i == len(items):
                            outs.append(Outcome("return", mk_option(False), s3))
                            continue
                        for o in call_closure(I, s3, caller, clos_ty, args[1], [items[i]]):
                            if o.kind != "return":
                                outs.append(o)
                                continue
                            for cond, hit in ((o.value, True), (z3.Not(o.value), False)):
                                cs = z3.simplify(cond)
                                if I.feasible(o.state, cs):
                                    s4 = o.state.fork()
                                    s4.assume(cs)
                                    if hit:
                                        outs.append(Outcome("return", mk_option(True, z3.IntVal(i)), s4))
                                    else:
                                        work.append((s4, i + 1))
            return outs
    m = re.match(r"^Option::<&.*>::(cloned|copied)$", f)
    if m:
        v = deref_all(I, st, args[0])
        if isinstance(v, EnumV):
            pl = {k_: tuple(deref_all(I, st, x) for x in p_) for k_, p_ in v.payloads.items()}
            return ret(st, EnumV(v.name, v.discr, pl))
    return None
