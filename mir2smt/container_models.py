"""Call models for std containers and iterator adaptors, on values of *enumerated length* with symbolic contents.

Vec<T> / [T] / arrays   : Agg(kind in {'vec','array','slice'}, elements)      (length concrete, elements symbolic)
HashSet<T> (scalar T)   : Agg('hashset', elements as inserted)                (membership / len are z3 terms: symbolic keys are fine)
iterators               : Agg('iter', (source, position, mode, extra))        mode: own | ref | filter_map | map | enumerate | zip
The closure bodies of adaptors are taken from the dump.  Everything else about the containers (allocation,
capacity, hashing, ordering of a HashSet) is abstracted away: that is part of the claim and listed in the evidence.
"""
import re

import z3

from .interp import Agg, EnumV, Ref, Opaque, Abs, Outcome, Unencodable, UNIT, norm_type
from .models import ret, panic, deref_all, strip_std_paths, mk_option, split_enum, call_closure, generic_args

SEQ = ("vec", "array", "slice")


def is_seq(v):
    return isinstance(v, Agg) and v.kind in SEQ


def mk_iter(source, pos, mode, extra=()):
    return Agg("iter", mode, (source, pos, extra))


def seq_of(I, st, v):
    """returns (sequence Agg, ref-or-None)"""
    if isinstance(v, Ref):
        tgt = I.load(st, v)
        if isinstance(tgt, Ref):
            return seq_of(I, st, tgt)
        if is_seq(tgt):
            return tgt, v
        raise Unencodable("not a sequence behind reference: %r" % (tgt,))
    if is_seq(v):
        return v, None
    raise Unencodable("not a sequence: %r" % (v,))


def iter_next(I, st, caller, it):
    """advance iterator value `it`; returns list of (state, new_iter, item or None)"""
    mode = it.name
    src, pos, extra = it.fields
    if mode in ("own", "ref"):
        seq, ref = seq_of(I, st, src)
        if pos >= len(seq.fields):
            return [(st, it, None)]
        nit = mk_iter(src, pos + 1, mode, extra)
        if mode == "own":
            return [(st, nit, seq.fields[pos])]
        if ref is None:
            I.frame_counter += 1
            fr = I.frame_counter
            st.mem[(fr, 0)] = seq
            ref = Ref(fr, 0, ())
            nit = mk_iter(ref, pos + 1, mode, extra)
        return [(st, nit, Ref(ref.frame, ref.local, tuple(ref.projs) + (("constindex", pos, 0),)))]
    if mode == "enumerate":
        res = []
        for s2, inner2, item in iter_next(I, st, caller, src):
            if item is None:
                res.append((s2, mk_iter(inner2, pos, mode, extra), None))
            else:
                res.append((s2, mk_iter(inner2, pos + 1, mode, extra), Agg("tuple", None, (z3.IntVal(pos), item))))
        return res
    if mode == "zip":
        res = []
        for s2, a2, ia in iter_next(I, st, caller, src):
            if ia is None:
                res.append((s2, mk_iter(a2, pos, mode, extra), None))
                continue
            for s3, b2, ib in iter_next(I, s2, caller, extra[0]):
                if ib is None:
                    res.append((s3, mk_iter(a2, pos, mode, (b2,)), None))
                else:
                    res.append((s3, mk_iter(a2, pos + 1, mode, (b2,)), Agg("tuple", None, (ia, ib))))
        return res
    if mode in ("map", "filter_map", "filter"):
        clos_val, clos_ty = extra
        res = []
        for s2, inner2, item in iter_next(I, st, caller, src):
            if item is None:
                res.append((s2, mk_iter(inner2, pos, mode, extra), None))
                continue
            cargs = [item]
            if mode == "filter":
                I.frame_counter += 1
                fr = I.frame_counter
                s2.mem[(fr, 0)] = item
                cargs = [Ref(fr, 0, ())]
            for o in call_closure(I, s2, caller, clos_ty, clos_val, cargs):
                if o.kind != "return":
                    raise Unencodable("closure of iterator adaptor did not return: %s" % o.msg)
                nit = mk_iter(inner2, pos + 1, mode, extra)
                if mode == "map":
                    res.append((o.state, nit, o.value))
                elif mode == "filter_map":
                    for c, idx in split_enum(I, o.state, o.value, "filter_map closure result"):
                        s3 = o.state.fork()
                        s3.assume(c)
                        if idx == 1:
                            res.append((s3, nit, o.value.payloads[1][0]))
                        else:
                            res.extend(iter_next(I, s3, caller, nit))
                else:
                    for cond, keep in ((o.value, True), (z3.Not(o.value), False)):
                        if I.feasible(o.state, cond):
                            s3 = o.state.fork()
                            s3.assume(cond)
                            if keep:
                                res.append((s3, nit, item))
                            else:
                                res.extend(iter_next(I, s3, caller, nit))
        return res
    raise Unencodable("iterator mode " + mode)


def drain(I, st, caller, it):
    """collect all items: list of (state, [items])"""
    work = [(st, it, [])]
    done = []
    guard = 0
    while work:
        s, cur, acc = work.pop()
        guard += 1
        if guard > 20000:
            raise Unencodable("iterator drain budget")
        for s2, nit, item in iter_next(I, s, caller, cur):
            if item is None:
                done.append((s2, acc))
            else:
                work.append((s2, nit, acc + [item]))
    return done


def hs_contains(elems, v):
    return z3.Or([e == v for e in elems]) if elems else z3.BoolVal(False)


def hs_len(elems):
    n = z3.IntVal(0)
    for i, e in enumerate(elems):
        n = n + z3.If(z3.And([e != x for x in elems[:i]]) if i else z3.BoolVal(True), 1, 0)
    return n


def container_models(I, st, caller, func, args, argtys, dest_ty):
    f = strip_std_paths(func).replace("std::slice::<impl", "core::slice::<impl").replace("alloc::slice::<impl", "core::slice::<impl")
    # ---- Vec / slices -------------------------------------------------------------------------------------------
    if re.match(r"^Vec::<.*>::new$", f):
        return ret(st, Agg("vec", None, ()))
    if re.match(r"^Vec::<.*>::with_capacity$", f):
        st.trace = st.trace + (("Vec::with_capacity", (args[0],), None),)
        return ret(st, Agg("vec", None, ()))
    if re.match(r"^Vec::<.*>::push$", f):
        v = I.load(st, args[0])
        I.store(st, args[0], Agg("vec", None, tuple(v.fields) + (args[1],)))
        return ret(st, UNIT)
    if re.match(r"^(Vec::<.*>|core::slice::<impl \[.*\]>)::(len|is_empty)$", f):
        seq, _ = seq_of(I, st, args[0])
        n = len(seq.fields)
        return ret(st, z3.IntVal(n) if f.endswith("len") else z3.BoolVal(n == 0))
    if re.match(r"^<Vec<.*> as (Deref|DerefMut|AsRef<.*>|Borrow<.*>)>::", f) or re.match(r"^Vec::<.*>::(as_slice|as_mut_slice)$", f):
        return ret(st, args[0])
    if re.match(r"^<(Vec<.*>|\[.*\]) as Clone>::clone$", f) or re.match(r"^core::slice::<impl \[.*\]>::to_vec$", f):
        seq, _ = seq_of(I, st, args[0])
        return ret(st, Agg("vec", None, seq.fields))
    if re.match(r"^<Vec<.*> as IntoIterator>::into_iter$", f):
        return ret(st, mk_iter(args[0], 0, "own"))
    if re.match(r"^<&(mut )?(Vec<.*>|\[.*\]) as IntoIterator>::into_iter$", f) or re.match(r"^core::slice::<impl \[.*\]>::iter(_mut)?$", f):
        return ret(st, mk_iter(args[0], 0, "ref"))
    if re.match(r"^<.* as IntoIterator>::into_iter$", f) and isinstance(args[0], Agg) and args[0].kind == "iter":
        return ret(st, args[0])
    m = re.match(r"^<(.*) as Iterator>::next$", f)
    if m:
        it = I.load(st, args[0])
        if isinstance(it, Agg) and it.kind == "iter":
            outs = []
            for s2, nit, item in iter_next(I, st.fork(), caller, it):
                I.store(s2, args[0], nit)
                outs.append(Outcome("return", mk_option(item is not None, item), s2))
            return outs
    m = re.match(r"^<(.*) as Iterator>::(map|filter_map|filter)::<", f)
    if m and isinstance(args[0], Agg) and args[0].kind == "iter":
        ga = generic_args(f)
        clos_ty = next((g for g in ga if "closure@" in g), None)
        if clos_ty is None:
            raise Unencodable("iterator adaptor with a non-closure function: " + f[:100])
        return ret(st, mk_iter(args[0], 0, m.group(2), (args[1], clos_ty)))
    if re.match(r"^<(.*) as Iterator>::enumerate$", f) and isinstance(args[0], Agg) and args[0].kind == "iter":
        return ret(st, mk_iter(args[0], 0, "enumerate"))
    if re.match(r"^<(.*) as Iterator>::zip::<", f) and isinstance(args[0], Agg) and args[0].kind == "iter":
        other = args[1]
        if not (isinstance(other, Agg) and other.kind == "iter"):
            raise Unencodable("zip with non-iterator")
        return ret(st, mk_iter(args[0], 0, "zip", (other,)))
    m = re.match(r"^<(.*) as Iterator>::collect::<(.*)>$", f)
    if m and isinstance(args[0], Agg) and args[0].kind == "iter":
        target = norm_type(m.group(2))
        outs = []
        for s2, items in drain(I, st.fork(), caller, args[0]):
            if target.startswith("Vec<"):
                outs.append(Outcome("return", Agg("vec", None, tuple(items)), s2))
            elif target.startswith("Result<Vec<"):
                # collect::<Result<Vec<_>,E>>: first Err wins
                vals = []
                res = None
                work = [(s2, 0, [])]
                while work:
                    s3, i, acc = work.pop()
                    if i == len(items):
                        outs.append(Outcome("return", EnumV("Result", 0, {0: (Agg("vec", None, tuple(acc)),)}), s3))
                        continue
                    for c, idx in split_enum(I, s3, items[i], "collect Result"):
                        s4 = s3.fork()
                        s4.assume(c)
                        if idx == 0:
                            work.append((s4, i + 1, acc + [items[i].payloads[0][0]]))
                        else:
                            outs.append(Outcome("return", EnumV("Result", 1, {1: items[i].payloads.get(1, (Opaque("error"),))}), s4))
            elif target.startswith("HashSet<"):
                outs.append(Outcome("return", Agg("hashset", None, tuple(deref_all(I, s2, x) for x in items)), s2))
            else:
                raise Unencodable("collect into " + target)
        return outs
    m = re.match(r"^<(.*) as Iterator>::(all|any)::<", f)
    if m and isinstance(I.load(st, args[0]) if isinstance(args[0], Ref) else args[0], Agg):
        it = I.load(st, args[0]) if isinstance(args[0], Ref) else args[0]
        ga = generic_args(f)
        clos_ty = next((g for g in ga if "closure@" in g), None)
        outs = []
        for s2, items in drain(I, st.fork(), caller, it):
            work = [(s2, 0, [])]
            while work:
                s3, i, conds = work.pop()
                if i == len(items):
                    r = z3.And(conds) if m.group(2) == "all" else z3.Or(conds)
                    outs.append(Outcome("return", z3.simplify(r) if conds else z3.BoolVal(m.group(2) == "all"), s3))
                    continue
                for o in call_closure(I, s3, caller, clos_ty, args[1], [items[i]]):
                    if o.kind != "return":
                        raise Unencodable("closure in all/any did not return")
                    work.append((o.state, i + 1, conds + [o.value]))
        return outs
    # ---- indexing ---------------------------------------------------------------------------------------------------
    m = re.match(r"^<(Vec<.*>|\[.*\]) as Index<usize>>::index$", f)
    if m:
        seq, ref = seq_of(I, st, args[0])
        iv = z3.simplify(args[1])
        if not z3.is_int_value(iv):
            raise Unencodable("symbolic index into a Vec")
        i = iv.as_long()
        if i >= len(seq.fields):
            return panic(st, "index out of bounds")
        if ref is None:
            I.frame_counter += 1
            fr = I.frame_counter
            st.mem[(fr, 0)] = seq
            ref = Ref(fr, 0, ())
        return ret(st, Ref(ref.frame, ref.local, tuple(ref.projs) + (("constindex", i, 0),)))
    # ---- HashSet of scalars -----------------------------------------------------------------------------------------
    if re.match(r"^HashSet::<.*>::new$", f):
        return ret(st, Agg("hashset", None, ()))
    if re.match(r"^HashSet::<.*>::insert$", f):
        hs = I.load(st, args[0])
        v = deref_all(I, st, args[1])
        if isinstance(v, Abs):
            v = v.term
        fresh = z3.Not(hs_contains(list(hs.fields), v))
        I.store(st, args[0], Agg("hashset", None, tuple(hs.fields) + (v,)))
        return ret(st, z3.simplify(fresh))
    if re.match(r"^HashSet::<.*>::contains::<", f):
        hs = deref_all(I, st, args[0])
        v = deref_all(I, st, args[1])
        if isinstance(v, Abs):
            v = v.term
        return ret(st, hs_contains(list(hs.fields), v))
    if re.match(r"^HashSet::<.*>::(len|is_empty)$", f):
        hs = deref_all(I, st, args[0])
        n = hs_len(list(hs.fields))
        return ret(st, n if f.endswith("len") else n == 0)
    return None
