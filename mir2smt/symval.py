"""Build symbolic input values of repo types from their source definitions (field order = MIR field index)."""
import os
import re

import z3

from . import parser
from .interp import Agg, EnumV, Opaque, Abs, INT_TYPES, norm_type, Unencodable


class TypeDB:
    def __init__(self, roots, features=("num-integer-backend",)):
        self.features = set(features)
        self._init(roots)

    def _init(self, roots):
        self.roots = roots if isinstance(roots, (list, tuple)) else [roots]
        self.cache = {}
        self._srcs = None

    def sources(self):
        if self._srcs is None:
            self._srcs = []
            for root in self.roots:
                for dp, dn, fns in os.walk(root):
                    if "/target" in dp or "/tests" in dp or "/benches" in dp:
                        continue
                    for fn in fns:
                        if fn.endswith(".rs"):
                            try:
                                self._srcs.append((os.path.join(dp, fn), open(os.path.join(dp, fn)).read()))
                            except OSError:
                                pass
        return self._srcs

    def struct_fields(self, name):
        """[(field_name|index, type_text)] or None"""
        if name in self.cache:
            return self.cache[name]
        res = None
        for path, src in self.sources():
            m = re.search(r"\bstruct\s+%s\b(?:<[^>{(]*>)?\s*(\{|\()" % re.escape(name), src)
            if not m:
                continue
            j = parser.find_matching(src, m.end() - 1)
            body = src[m.end():j]
            body = re.sub(r"//[^\n]*", "", body)
            body = re.sub(r"/\*.*?\*/", "", body, flags=re.S)
            # fields behind a disabled cargo feature do not exist in the compiled layout
            def _cfg(mm):
                feat = mm.group(1)
                return "" if feat in self.features else "@@DROP@@ "
            body = re.sub(r'#\[cfg\(feature\s*=\s*"([^"]+)"\)\]', _cfg, body)
            body = re.sub(r"#\[[^\]]*\]", "", body)
            fields = []
            for k, part in enumerate(parser.split_top(body, ",")):
                part = part.strip()
                if not part or part.startswith("@@DROP@@"):
                    continue
                part = re.sub(r"^pub(\([^)]*\))?\s+", "", part)
                if m.group(1) == "{":
                    fn, ty = part.split(":", 1)
                    fields.append((fn.strip(), ty.strip()))
                else:
                    fields.append((str(len(fields)), part.strip()))
            res = fields
            break
        self.cache[name] = res
        return res


def _alias(self, name):
    key = ("alias", name)
    if key in self.cache:
        return self.cache[key]
    res = None
    for path, src in self.sources():
        m = re.search(r"\btype\s+%s\s*=\s*([^;]+);" % re.escape(name), src)
        if m:
            res = m.group(1).strip()
            break
    self.cache[key] = res
    return res


TypeDB.alias = _alias


class SymBuilder:
    def __init__(self, typedb, interp, abstract=None, vec_lengths=None):
        self.db = typedb
        self.I = interp
        self.constraints = []
        self.vars = {}
        self.abstract = abstract or {}  # regex on normalised type -> sort name
        self.vec_lengths = vec_lengths or []  # [(regex on the value's path prefix, length)]: enumerated shapes

    def make(self, ty, prefix):
        ty = ty.strip()
        nt = norm_type(ty)
        for rx, sort in self.abstract.items():
            if re.fullmatch(rx, nt):
                if callable(sort):
                    return sort(prefix, self)
                v = z3.Int(prefix)
                self.vars[prefix] = v
                return Abs(sort, v)
        if nt in INT_TYPES:
            v = z3.Int(prefix)
            lo, hi = INT_TYPES[nt]
            self.constraints.append(z3.And(v >= lo, v <= hi))
            self.vars[prefix] = v
            return v
        if nt == "bool":
            v = z3.Bool(prefix)
            self.vars[prefix] = v
            return v
        m = re.match(r"^Option<(.*)>$", nt)
        if m:
            d = z3.Int(prefix + ".is_some")
            self.constraints.append(z3.Or(d == 0, d == 1))
            self.vars[prefix + ".is_some"] = d
            return EnumV("Option", d, {1: (self.make(m.group(1), prefix + ".some"),)})
        if nt in ("f64", "f32"):
            v = z3.FP(prefix, z3.Float64() if nt == "f64" else z3.Float32())
            self.vars[prefix] = v
            return v
        m = re.match(r"^Vec<(.*)>$", nt)
        if m:
            for rx, n in self.vec_lengths:
                if re.fullmatch(rx, prefix):
                    return Agg("vec", None, [self.make(m.group(1), "%s[%d]" % (prefix, i)) for i in range(n)])
        if nt in ("String", "&str", "str") or nt.startswith(("BTreeSet<", "BTreeMap<", "Vec<", "HashMap<", "HashSet<")):
            return Opaque(nt, prefix)
        base = nt.split("<")[0]
        fields = self.db.struct_fields(base)
        if fields is not None:
            return Agg("adt", base, [self.make(t, prefix + "." + n) for n, t in fields])
        al = self.db.alias(base)
        if al is not None:
            return self.make(al, prefix)
        if self.I.is_enum(base):
            tbl = self.I.enum_tables[base]
            d = z3.Int(prefix + ".discr")
            vals = list(tbl.values()) if isinstance(tbl, dict) else list(range(len(tbl)))
            self.constraints.append(z3.Or([d == v for v in vals]))
            self.vars[prefix + ".discr"] = d
            pls = {}
            for vn, tys in getattr(self.I, "enum_payloads", {}).get(base, {}).items():
                if tys:
                    pls[tbl[vn] if isinstance(tbl, dict) else tbl.index(vn)] = tuple(
                        self.make(t, "%s.%s.%d" % (prefix, vn, i)) for i, t in enumerate(tys))
            return EnumV(base, d, pls)
        raise Unencodable("cannot build a symbolic value of type %s" % ty)
