import z3

def ackermannize(formulas, fun_names_prefix=("sha256", "hex_encode", "be4", "be8", "encode_", "u8f24_from_f64")):
    """replace applications of the injective encoders by fresh constants + pairwise (c_i = c_j) <=> (arg_i = arg_j)"""
    cache = {}
    apps = {}   # decl name -> [(const, new_arg)]
    cons = []
    counter = [0]

    def is_enc(d):
        n = d.name()
        return any(n == p or (p.endswith("_") and n.startswith(p)) for p in fun_names_prefix) and not n.endswith(("_inv", "_preimage"))

    def walk(e):
        k = e.get_id()
        if k in cache:
            return cache[k]
        if z3.is_app(e) and e.num_args() > 0:
            kids = [walk(c) for c in e.children()]
            d = e.decl()
            if d.kind() == z3.Z3_OP_UNINTERPRETED and is_enc(d):
                counter[0] += 1
                c = z3.Const("%s!%d" % (d.name(), counter[0]), e.sort())
                apps.setdefault(d.name(), []).append((c, kids[0]))
                r = c
            else:
                r = d(*kids) if any(a.get_id() != b.get_id() for a, b in zip(kids, e.children())) else e
        else:
            r = e
        cache[k] = r
        return r
    out = [walk(f) for f in formulas]
    for name, lst in apps.items():
        for i, (c, a) in enumerate(lst):
            if name == "sha256":
                cons.append(z3.Length(c) == 32)
            elif name == "hex_encode":
                cons.append(z3.Length(c) == 2 * z3.Length(a))
            elif name == "be8":
                cons.append(z3.Length(c) == 8)
            elif name == "be4":
                cons.append(z3.Length(c) == 4)
            elif name.startswith("encode_"):
                cons.append(z3.Length(c) >= 1)
            for c2, a2 in lst[:i]:
                cons.append((c == c2) == (a == a2))
    return out, cons, apps
