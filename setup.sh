#!/bin/bash
# Build everything the checks need from files on disk only (offline).
set -e
cd "$(dirname "$0")"
export CARGO_NET_OFFLINE=true
mkdir -p .cache evidence replays
# native replay / translator-validation oracle (dev + release)
cp /repo/Cargo.lock replay/common/Cargo.lock
(cd replay/common && cargo build --offline -q --target-dir ../../.cache/replay-target && cargo build --offline -q --release --target-dir ../../.cache/replay-target)
(cd replay/pool && cp /repo/Cargo.lock . && cargo build --offline -q --target-dir ../../.cache/replay-target && cargo build --offline -q --release --target-dir ../../.cache/replay-target)
(cd replay/lottery && cp /repo/Cargo.lock . && cargo build --offline -q --release --target-dir ../../.cache/replay-target)
(cd replay/stm && cp /repo/Cargo.lock . && cargo build --offline -q --target-dir ../../.cache/replay-target)
# warm the MIR target dir (dependencies) so that per-check dumps only recompile the crate itself
python3-vt - <<'PY'
import sys
sys.path.insert(0, '.')
from lib import mir
for c in ("mithril-common", "mithril-stm"):
    p, dt = mir.dump(c)
    print("MIR dump", c, "%.1fs" % dt)
PY
echo setup done
