#!/bin/bash
# usage: source tools_seed_env.sh <worktree>   — development helper: run ./check against a scratch worktree instead of /repo
# (copies the replay crates with their path dependencies rewritten; separate cache / evidence / replay dirs under the worktree)
wt=$1
mkdir -p $wt/.verif-env
rm -rf $wt/.verif-env/replay && cp -r /verif/replay $wt/.verif-env/replay
find $wt/.verif-env/replay -name Cargo.toml -o -name "*.rs" | xargs sed -i "s#/repo/#$wt/#g"
export VERIF_REPO=$wt VERIF_CACHE=$wt/.verif-env/cache VERIF_EVIDENCE=$wt/.verif-env/evidence VERIF_REPLAYS=$wt/.verif-env/replays VERIF_REPLAY_CRATES=$wt/.verif-env/replay VERIF_PARALLEL=1
mkdir -p $VERIF_CACHE $VERIF_EVIDENCE $VERIF_REPLAYS
