//! Native replay / translator-validation oracle: runs the *real* mithril-common functions on concrete
//! inputs read from stdin (one query per line) and prints one result line per query.
use std::future::Future;
use std::io::BufRead;
use std::panic;

use mithril_common::entities::{
    BlockNumber, BlockNumberOffset, CardanoBlocksTransactionsSigningConfig, CardanoTransactionsSigningConfig, ChainPoint, Epoch,
    SignedEntityConfig, SignedEntityType, SignedEntityTypeDiscriminants, SlotNumber, TimePoint,
};

/// entity <discr> <epoch> <ifn> <slot> <block> <tx_some> <tx_sec> <tx_step> <bk_some> <bk_sec> <bk_step>
fn entity(p: &[&str]) -> String {
    let n: Vec<u64> = p[2..].iter().map(|x| x.parse().unwrap()).collect();
    let d = match p[1] {
        "MithrilStakeDistribution" => SignedEntityTypeDiscriminants::MithrilStakeDistribution,
        "CardanoStakeDistribution" => SignedEntityTypeDiscriminants::CardanoStakeDistribution,
        "CardanoDatabase" => SignedEntityTypeDiscriminants::CardanoDatabase,
        "CardanoTransactions" => SignedEntityTypeDiscriminants::CardanoTransactions,
        _ => SignedEntityTypeDiscriminants::CardanoBlocksTransactions,
    };
    let cfg = SignedEntityConfig {
        allowed_discriminants: Default::default(),
        cardano_transactions_signing_config: (n[4] == 1).then(|| CardanoTransactionsSigningConfig {
            security_parameter: BlockNumberOffset(n[5]),
            step: BlockNumber(n[6]),
        }),
        cardano_blocks_transactions_signing_config: (n[7] == 1).then(|| CardanoBlocksTransactionsSigningConfig {
            security_parameter: BlockNumberOffset(n[8]),
            step: BlockNumber(n[9]),
        }),
    };
    let tp = TimePoint::new(n[0], n[1], ChainPoint::new(SlotNumber(n[2]), BlockNumber(n[3]), "hash"));
    let r = panic::catch_unwind(|| cfg.time_point_to_signed_entity(d, &tp));
    match r {
        Err(_) => "panic".to_string(),
        Ok(Err(_)) => "err".to_string(),
        Ok(Ok(e)) => match e {
            SignedEntityType::MithrilStakeDistribution(e) => format!("MithrilStakeDistribution {}", *e),
            SignedEntityType::CardanoStakeDistribution(e) => format!("CardanoStakeDistribution {}", *e),
            SignedEntityType::CardanoDatabase(b) => format!("CardanoDatabase {} {}", *b.epoch, b.immutable_file_number),
            SignedEntityType::CardanoTransactions(e, b) => format!("CardanoTransactions {} {}", *e, *b),
            SignedEntityType::CardanoBlocksTransactions(e, b, o) => format!("CardanoBlocksTransactions {} {} {}", *e, *b, *o),
        },
    }
}

/// chain_link <retarget>: build a real certificate chain (stable signer set, one certificate per epoch) with the
/// crate's own test builder and verify one link with the real `MithrilCertificateVerifier`.
///   retarget = 0: the honest link (certificate of epoch e -> certificate of epoch e-1)      -> must be accepted
///   retarget = 1: the certificate of epoch e re-targeted to the certificate of epoch e+1 (previous_hash replaced,
///                 hash recomputed; the multi-signature does not cover previous_hash)            -> must be rejected
fn chain_link(retarget: bool) -> String {
    use mithril_common::certificate_chain::{CertificateVerifier, MithrilCertificateVerifier};
    use mithril_common::test::builder::{CertificateChainBuilder, CertificateChainingMethod};
    use mithril_common::test::double::FakeCertificaterRetriever;
    use std::sync::Arc;
    let chain = CertificateChainBuilder::new()
        .with_total_certificates(5)
        .with_certificates_per_epoch(1)
        .with_total_signers_per_epoch_processor(&|_| 3)
        .with_certificate_chaining_method(CertificateChainingMethod::Sequential)
        .build();
    // certificates_chained is ordered latest -> genesis
    let certs = &chain.certificates_chained;
    let later = certs[1].clone(); // epoch e+1
    let mut cert = certs[2].clone(); // epoch e
    let earlier = certs[3].clone(); // epoch e-1
    assert!(*later.epoch == *cert.epoch + 1 && *cert.epoch == *earlier.epoch + 1);
    let previous = if retarget {
        cert.previous_hash = later.hash.clone();
        cert.hash = cert.try_compute_hash().unwrap();
        later
    } else {
        earlier
    };
    let logger = slog::Logger::root(slog::Discard, slog::o!());
    let verifier = MithrilCertificateVerifier::new(
        logger,
        Arc::new(FakeCertificaterRetriever::from_certificates(&[])),
        Arc::new(chain.genesis_verifier.clone()),
    );
    let fut = verifier.verify_standard_certificate(&cert, &previous);
    let mut fut = std::pin::pin!(fut);
    let waker = std::task::Waker::noop();
    let mut cx = std::task::Context::from_waker(&waker);
    match fut.as_mut().poll(&mut cx) {
        std::task::Poll::Ready(Ok(())) => format!("accepted certificate.epoch={} previous.epoch={}", *cert.epoch, *previous.epoch),
        std::task::Poll::Ready(Err(e)) => format!("rejected certificate.epoch={} previous.epoch={} ({})", *cert.epoch, *previous.epoch, e),
        std::task::Poll::Pending => "pending".to_string(),
    }
}

fn beacon(kind: &str, tip: u64, sec: u64, step: u64) -> String {
    let r = panic::catch_unwind(|| match kind {
        "tx" => *CardanoTransactionsSigningConfig { security_parameter: BlockNumberOffset(sec), step: BlockNumber(step) }
            .compute_block_number_to_be_signed(BlockNumber(tip)),
        _ => *CardanoBlocksTransactionsSigningConfig { security_parameter: BlockNumberOffset(sec), step: BlockNumber(step) }
            .compute_block_number_to_be_signed(BlockNumber(tip)),
    });
    match r {
        Ok(v) => v.to_string(),
        Err(_) => "panic".to_string(),
    }
}

fn main() {
    panic::set_hook(Box::new(|_| {}));
    let stdin = std::io::stdin();
    for line in stdin.lock().lines() {
        let line = line.unwrap();
        let p: Vec<&str> = line.split_whitespace().collect();
        if p.is_empty() {
            continue;
        }
        let out = match p[0] {
            "beacon" => beacon(p[1], p[2].parse().unwrap(), p[3].parse().unwrap(), p[4].parse().unwrap()),
            "entity" => entity(&p),
            "chain_link" => chain_link(p[1] == "1"),
            "epoch_gap" => {
                let a = Epoch(p[1].parse().unwrap());
                let b = Epoch(p[2].parse().unwrap());
                a.has_gap_with(&b).to_string()
            }
            _ => "unknown-query".to_string(),
        };
        println!("{}", out);
    }
}
