//! Native replay / translator-validation oracle: runs the *real* mithril-common functions on concrete
//! inputs read from stdin (one query per line) and prints one result line per query.
use std::io::BufRead;
use std::panic;

use mithril_common::entities::{
    BlockNumber, BlockNumberOffset, CardanoBlocksTransactionsSigningConfig, CardanoTransactionsSigningConfig, ChainPoint, Epoch,
    SignedEntityConfig, SignedEntityType, SignedEntityTypeDiscriminants, SlotNumber, TimePoint,
};

/// entity <discr> <epoch> <ifn> <slot> <block> <tx_some> <tx_sec> <tx_step> <bk_some> <bk_sec> <bk_step>
fn entity(p: &[&str]) -> String {
    let n: Vec<u64> = p[2..].iter().map(|x| x.parse().unwrap()).collect();
    let d = match p[1] {
        "MithrilStakeDistribution" => SignedEntityTypeDiscriminants::MithrilStakeDistribution,
        "CardanoStakeDistribution" => SignedEntityTypeDiscriminants::CardanoStakeDistribution,
        "CardanoDatabase" => SignedEntityTypeDiscriminants::CardanoDatabase,
        "CardanoTransactions" => SignedEntityTypeDiscriminants::CardanoTransactions,
        _ => SignedEntityTypeDiscriminants::CardanoBlocksTransactions,
    };
    let cfg = SignedEntityConfig {
        allowed_discriminants: Default::default(),
        cardano_transactions_signing_config: (n[4] == 1).then(|| CardanoTransactionsSigningConfig {
            security_parameter: BlockNumberOffset(n[5]),
            step: BlockNumber(n[6]),
        }),
        cardano_blocks_transactions_signing_config: (n[7] == 1).then(|| CardanoBlocksTransactionsSigningConfig {
            security_parameter: BlockNumberOffset(n[8]),
            step: BlockNumber(n[9]),
        }),
    };
    let tp = TimePoint::new(n[0], n[1], ChainPoint::new(SlotNumber(n[2]), BlockNumber(n[3]), "hash"));
    let r = panic::catch_unwind(|| cfg.time_point_to_signed_entity(d, &tp));
    match r {
        Err(_) => "panic".to_string(),
        Ok(Err(_)) => "err".to_string(),
        Ok(Ok(e)) => match e {
            SignedEntityType::MithrilStakeDistribution(e) => format!("MithrilStakeDistribution {}", *e),
            SignedEntityType::CardanoStakeDistribution(e) => format!("CardanoStakeDistribution {}", *e),
            SignedEntityType::CardanoDatabase(b) => format!("CardanoDatabase {} {}", *b.epoch, b.immutable_file_number),
            SignedEntityType::CardanoTransactions(e, b) => format!("CardanoTransactions {} {}", *e, *b),
            SignedEntityType::CardanoBlocksTransactions(e, b, o) => format!("CardanoBlocksTransactions {} {} {}", *e, *b, *o),
        },
    }
}

fn beacon(kind: &str, tip: u64, sec: u64, step: u64) -> String {
    let r = panic::catch_unwind(|| match kind {
        "tx" => *CardanoTransactionsSigningConfig { security_parameter: BlockNumberOffset(sec), step: BlockNumber(step) }
            .compute_block_number_to_be_signed(BlockNumber(tip)),
        _ => *CardanoBlocksTransactionsSigningConfig { security_parameter: BlockNumberOffset(sec), step: BlockNumber(step) }
            .compute_block_number_to_be_signed(BlockNumber(tip)),
    });
    match r {
        Ok(v) => v.to_string(),
        Err(_) => "panic".to_string(),
    }
}

fn main() {
    panic::set_hook(Box::new(|_| {}));
    let stdin = std::io::stdin();
    for line in stdin.lock().lines() {
        let line = line.unwrap();
        let p: Vec<&str> = line.split_whitespace().collect();
        if p.is_empty() {
            continue;
        }
        let out = match p[0] {
            "beacon" => beacon(p[1], p[2].parse().unwrap(), p[3].parse().unwrap(), p[4].parse().unwrap()),
            "entity" => entity(&p),
            "epoch_gap" => {
                let a = Epoch(p[1].parse().unwrap());
                let b = Epoch(p[2].parse().unwrap());
                a.has_gap_with(&b).to_string()
            }
            _ => "unknown-query".to_string(),
        };
        println!("{}", out);
    }
}
