//! Native replay / translator-validation oracle: runs the *real* mithril-common functions on concrete
//! inputs read from stdin (one query per line) and prints one result line per query.
use std::future::Future;
use std::io::BufRead;
use std::panic;

use mithril_common::entities::{
    BlockNumber, BlockNumberOffset, CardanoBlocksTransactionsSigningConfig, CardanoTransactionsSigningConfig, ChainPoint, Epoch,
    SignedEntityConfig, SignedEntityType, SignedEntityTypeDiscriminants, SlotNumber, TimePoint,
};

/// entity <discr> <epoch> <ifn> <slot> <block> <tx_some> <tx_sec> <tx_step> <bk_some> <bk_sec> <bk_step>
fn entity(p: &[&str]) -> String {
    let n: Vec<u64> = p[2..].iter().map(|x| x.parse().unwrap()).collect();
    let d = match p[1] {
        "MithrilStakeDistribution" => SignedEntityTypeDiscriminants::MithrilStakeDistribution,
        "CardanoStakeDistribution" => SignedEntityTypeDiscriminants::CardanoStakeDistribution,
        "CardanoDatabase" => SignedEntityTypeDiscriminants::CardanoDatabase,
        "CardanoTransactions" => SignedEntityTypeDiscriminants::CardanoTransactions,
        _ => SignedEntityTypeDiscriminants::CardanoBlocksTransactions,
    };
    let cfg = SignedEntityConfig {
        allowed_discriminants: Default::default(),
        cardano_transactions_signing_config: (n[4] == 1).then(|| CardanoTransactionsSigningConfig {
            security_parameter: BlockNumberOffset(n[5]),
            step: BlockNumber(n[6]),
        }),
        cardano_blocks_transactions_signing_config: (n[7] == 1).then(|| CardanoBlocksTransactionsSigningConfig {
            security_parameter: BlockNumberOffset(n[8]),
            step: BlockNumber(n[9]),
        }),
    };
    let tp = TimePoint::new(n[0], n[1], ChainPoint::new(SlotNumber(n[2]), BlockNumber(n[3]), "hash"));
    let r = panic::catch_unwind(|| cfg.time_point_to_signed_entity(d, &tp));
    match r {
        Err(_) => "panic".to_string(),
        Ok(Err(_)) => "err".to_string(),
        Ok(Ok(e)) => match e {
            SignedEntityType::MithrilStakeDistribution(e) => format!("MithrilStakeDistribution {}", *e),
            SignedEntityType::CardanoStakeDistribution(e) => format!("CardanoStakeDistribution {}", *e),
            SignedEntityType::CardanoDatabase(b) => format!("CardanoDatabase {} {}", *b.epoch, b.immutable_file_number),
            SignedEntityType::CardanoTransactions(e, b) => format!("CardanoTransactions {} {}", *e, *b),
            SignedEntityType::CardanoBlocksTransactions(e, b, o) => format!("CardanoBlocksTransactions {} {} {}", *e, *b, *o),
        },
    }
}

/// chain_link <scenario>: build a real certificate chain with the crate's own test builders and verify ONE link with
/// the real `MithrilCertificateVerifier::verify_standard_certificate` (real BLS multi-signatures, real hashes).
///   0: the honest link (epoch e -> epoch e-1)                                                   -> must be accepted
///   1: an honest certificate of epoch e re-targeted to the certificate of epoch e+1 (hash recomputed) -> must be rejected
///   2: same-epoch link, certificate re-signed by a foreign signer set (own AVK)                      -> must be rejected
///   3: cross-epoch link (e -> e-1), certificate re-signed by a foreign signer set                    -> must be rejected
///   4: like 3 but the previous certificate is the genesis certificate                               -> must be rejected
///   5: same-epoch link, foreign signer set using different protocol parameters, AVK field kept honest is impossible,
///      so: honest signer set but protocol parameters of the certificate changed (phi_f) and re-signed -> must be rejected
fn forge(template: &mithril_common::entities::Certificate, change_params: bool) -> mithril_common::entities::Certificate {
    use mithril_common::crypto_helper::ProtocolClerk;
    use mithril_common::entities::{CertificateSignature, ProtocolMessagePartKey};
    use mithril_common::test::builder::{MithrilFixtureBuilder, StakeDistributionGenerationMethod};
    use mithril_common::test::double::Dummy;
    use mithril_stm::{AggregateSignatureType, AncillaryProofInput};
    let mut params = template.metadata.protocol_parameters.clone();
    if change_params {
        params.phi_f = 1.0;
    }
    let adversary = MithrilFixtureBuilder::default()
        .with_signers(3)
        .with_party_id_seed([0xAD; 32])
        .with_stake_distribution(StakeDistributionGenerationMethod::RandomDistribution { seed: [0xAD; 32], min_stake: 1 })
        .with_protocol_parameters(params.clone())
        .build();
    let signers = adversary.signers_fixture();
    let clerk = ProtocolClerk::new_clerk_from_signer(&signers[0].protocol_signer);
    let mut forged = template.clone();
    forged.protocol_message.set_message_part(ProtocolMessagePartKey::SnapshotDigest, "digest-chosen-by-the-adversary".to_string());
    forged.signed_message = forged.protocol_message.compute_hash();
    forged.metadata.signers = adversary.stake_distribution_parties();
    forged.metadata.protocol_parameters = params;
    forged.aggregate_verification_key =
        clerk.compute_aggregate_verification_key().to_concatenation_aggregate_verification_key().to_owned().into();
    let single_signatures: Vec<_> =
        signers.iter().filter_map(|s| s.protocol_signer.sign(forged.signed_message.as_bytes())).collect();
    let (multi_signature, _) = clerk
        .aggregate_signatures_with_type(&single_signatures, forged.signed_message.as_bytes(), AggregateSignatureType::default(), AncillaryProofInput::dummy())
        .expect("adversarial quorum");
    forged.signature = CertificateSignature::MultiSignature(forged.signed_entity_type(), multi_signature.into());
    forged.hash = forged.try_compute_hash().unwrap();
    forged
}

fn chain_link(scenario: u32) -> String {
    use mithril_common::certificate_chain::{CertificateVerifier, MithrilCertificateVerifier};
    use mithril_common::test::builder::{CertificateChainBuilder, CertificateChainingMethod};
    use mithril_common::test::double::FakeCertificaterRetriever;
    use std::sync::Arc;
    let per_epoch = if scenario == 2 || scenario == 5 { 2 } else { 1 };
    let chain = CertificateChainBuilder::new()
        .with_total_certificates(5)
        .with_certificates_per_epoch(per_epoch)
        .with_total_signers_per_epoch_processor(&|_| 3)
        .with_certificate_chaining_method(if per_epoch == 1 { CertificateChainingMethod::Sequential } else { CertificateChainingMethod::ToMasterCertificate })
        .build();
    // certificates_chained is ordered latest -> genesis
    let certs = &chain.certificates_chained;
    let find = |h: &str| certs.iter().find(|c| c.hash == h).cloned().unwrap();
    let (cert, previous) = match scenario {
        0 => (certs[2].clone(), find(&certs[2].previous_hash)),
        1 => {
            let later = certs[1].clone();
            let mut c = certs[2].clone();
            assert!(*later.epoch == *c.epoch + 1);
            c.previous_hash = later.hash.clone();
            c.hash = c.try_compute_hash().unwrap();
            (c, later)
        }
        2 | 5 => {
            let latest = certs[0].clone();
            let prev = find(&latest.previous_hash);
            assert!(prev.epoch == latest.epoch, "scenario needs a same-epoch link");
            (forge(&latest, scenario == 5), prev)
        }
        3 => {
            let c = certs[1].clone();
            let prev = find(&c.previous_hash);
            assert!(*prev.epoch + 1 == *c.epoch);
            (forge(&c, false), prev)
        }
        6 | 7 | 8 => {
            // epoch boundary; the previous certificate does not carry the message part that vouches for the next
            // protocol parameters (6) / the next aggregate key (7); 8 = a truncated previous_hash
            use mithril_common::entities::ProtocolMessagePartKey;
            let mut c = certs[1].clone();
            let mut prev = find(&c.previous_hash);
            assert!(*prev.epoch + 1 == *c.epoch);
            if scenario == 8 {
                c.previous_hash = prev.hash[..prev.hash.len() / 2].to_string();
                c.hash = c.try_compute_hash().unwrap();
            } else {
                prev.protocol_message.message_parts.remove(if scenario == 6 { &ProtocolMessagePartKey::NextProtocolParameters } else { &ProtocolMessagePartKey::NextAggregateVerificationKey });
                prev.signed_message = prev.protocol_message.compute_hash();
                prev.hash = prev.try_compute_hash().unwrap();
                if scenario == 6 { c.metadata.protocol_parameters.k = 1; }
                c.previous_hash = prev.hash.clone();
                c.hash = c.try_compute_hash().unwrap();
            }
            (c, prev)
        }
        _ => {
            let genesis = certs[certs.len() - 1].clone();
            let c = certs[certs.len() - 2].clone();
            assert!(c.previous_hash == genesis.hash && genesis.is_genesis());
            (forge(&c, false), genesis)
        }
    };
    let logger = slog::Logger::root(slog::Discard, slog::o!());
    let verifier = MithrilCertificateVerifier::new(
        logger,
        Arc::new(FakeCertificaterRetriever::from_certificates(&[])),
        Arc::new(chain.genesis_verifier.clone()),
    );
    let fut = verifier.verify_standard_certificate(&cert, &previous);
    let mut fut = std::pin::pin!(fut);
    let waker = std::task::Waker::noop();
    let mut cx = std::task::Context::from_waker(&waker);
    match fut.as_mut().poll(&mut cx) {
        std::task::Poll::Ready(Ok(())) => format!("accepted certificate.epoch={} previous.epoch={}", *cert.epoch, *previous.epoch),
        std::task::Poll::Ready(Err(e)) => format!("rejected certificate.epoch={} previous.epoch={} ({})", *cert.epoch, *previous.epoch, e),
        std::task::Poll::Pending => "pending".to_string(),
    }
}

fn beacon(kind: &str, tip: u64, sec: u64, step: u64) -> String {
    let r = panic::catch_unwind(|| match kind {
        "tx" => *CardanoTransactionsSigningConfig { security_parameter: BlockNumberOffset(sec), step: BlockNumber(step) }
            .compute_block_number_to_be_signed(BlockNumber(tip)),
        _ => *CardanoBlocksTransactionsSigningConfig { security_parameter: BlockNumberOffset(sec), step: BlockNumber(step) }
            .compute_block_number_to_be_signed(BlockNumber(tip)),
    });
    match r {
        Ok(v) => v.to_string(),
        Err(_) => "panic".to_string(),
    }
}

fn main() {
    panic::set_hook(Box::new(|_| {}));
    let stdin = std::io::stdin();
    for line in stdin.lock().lines() {
        let line = line.unwrap();
        let p: Vec<&str> = line.split_whitespace().collect();
        if p.is_empty() {
            continue;
        }
        let out = match p[0] {
            "beacon" => beacon(p[1], p[2].parse().unwrap(), p[3].parse().unwrap(), p[4].parse().unwrap()),
            "entity" => entity(&p),
            "kes_window" => {
                // a KES signature made at evolution 2 (key evolved twice), verified with announced evolutions 0..=5 and u64::MAX
                use kes_summed_ed25519::kes::Sum6Kes;
                use kes_summed_ed25519::traits::KesSk;
                use mithril_common::crypto_helper::{ColdKeyGenerator, KesEvolutions, KesPeriod, KesVerifier, KesVerifierStandard, OpCert};
                let mut seed = [7u8; 32];
                let mut buf = [0u8; Sum6Kes::SIZE + 4];
                let (mut sk, vk) = Sum6Kes::keygen(&mut buf, &mut seed);
                sk.update().unwrap();
                sk.update().unwrap();
                let msg = b"verif kes window";
                let sig = sk.sign(msg);
                let keypair = ColdKeyGenerator::create_deterministic_keypair([9u8; 32]);
                let opcert = OpCert::new(vk, 0, KesPeriod(0), keypair);
                let mut out = Vec::new();
                for e in [0u64, 1, 2, 3, 4, 5, u64::MAX] {
                    let ok = KesVerifierStandard.verify(msg, &sig, &opcert, KesEvolutions(e)).is_ok();
                    let want = (1..=3).contains(&e);
                    out.push(format!("{}={}{}", e, if ok == want { "" } else { "VIOLATED " }, if ok { "accepted" } else { "rejected" }));
                }
                format!("registration kes_window(signed at evolution 2) {}", out.join(" "))
            }
            "registration" => {
                // battery of altered / spliced registrations through the real KeyRegWrapper::register (real KES, real opcerts)
                use mithril_common::crypto_helper::{KesEvolutions, ProtocolKeyRegistration, SignerRegistrationParameters};
                use mithril_common::test::builder::MithrilFixtureBuilder;
                let fixture = MithrilFixtureBuilder::default().with_signers(2).build();
                let sw = fixture.signers_with_stake();
                let dist: Vec<(String, u64)> = sw.iter().map(|s| (s.party_id.clone(), s.stake)).collect();
                let (a, b) = (&sw[0], &sw[1]);
                let base = |s: &mithril_common::entities::SignerWithStake| SignerRegistrationParameters {
                    party_id: None,
                    operational_certificate: s.operational_certificate.clone(),
                    verification_key_for_concatenation: s.verification_key_for_concatenation,
                    verification_key_signature_for_concatenation: s.verification_key_signature_for_concatenation,
                    kes_evolutions: s.kes_evolutions,
                };
                let ev = a.kes_evolutions.map(|e| *e).unwrap_or(0);
                let stm_params = fixture.protocol_parameters().into();
                let run = |p: SignerRegistrationParameters| -> String {
                    let mut reg = ProtocolKeyRegistration::init(&dist);
                    match reg.register(p) {
                        Ok(id) => {
                            // the stake recorded for the party = total stake of the closed one-party registration
                            let stake = reg.close(&stm_params).map(|c| c.total_stake).unwrap_or(0);
                            let who = |x: u64| if x == a.stake { "stakeA".to_string() } else if x == b.stake { "stakeB".to_string() } else { x.to_string() };
                            format!("ok:{}:{}", if id == a.party_id { "A" } else if id == b.party_id { "B" } else { "other" }, who(stake))
                        }
                        Err(_) => "rejected".to_string(),
                    }
                };
                let mut out = Vec::new();
                let mut expect = |name: &str, got: String, want: &str| {
                    out.push(format!("{}={}{}", name, if got == want { "" } else { "VIOLATED " }, got));
                };
                expect("honest", run(base(a)), "ok:A:stakeA");
                expect("evolution_plus_1", run(SignerRegistrationParameters { kes_evolutions: Some(KesEvolutions(ev + 1)), ..base(a) }), "ok:A:stakeA");
                expect("evolution_plus_2", run(SignerRegistrationParameters { kes_evolutions: Some(KesEvolutions(ev + 2)), ..base(a) }), "rejected");
                expect("evolution_max", run(SignerRegistrationParameters { kes_evolutions: Some(KesEvolutions(u64::MAX)), ..base(a) }), "rejected");
                expect("key_of_B_with_A_cert_and_signature", run(SignerRegistrationParameters { verification_key_for_concatenation: b.verification_key_for_concatenation, ..base(a) }), "rejected");
                expect("signature_of_B_with_A_cert_and_key", run(SignerRegistrationParameters { verification_key_signature_for_concatenation: b.verification_key_signature_for_concatenation, ..base(a) }), "rejected");
                expect("cert_of_B_with_A_key_and_signature", run(SignerRegistrationParameters { operational_certificate: b.operational_certificate.clone(), ..base(a) }), "rejected");
                expect("claimed_party_B", run(SignerRegistrationParameters { party_id: Some(b.party_id.clone()), ..base(a) }), "ok:A:stakeA");
                expect("claimed_party_A", run(SignerRegistrationParameters { party_id: Some(a.party_id.clone()), ..base(a) }), "ok:A:stakeA");
                expect("no_kes_evolutions", run(SignerRegistrationParameters { kes_evolutions: None, ..base(a) }), "rejected");
                expect("no_kes_evolutions_key_of_B", run(SignerRegistrationParameters { kes_evolutions: None, verification_key_for_concatenation: b.verification_key_for_concatenation, ..base(a) }), "rejected");
                {
                    // a genuine pool that is not in the distribution, claiming a pool that is
                    let dist2: Vec<(String, u64)> = vec![(b.party_id.clone(), b.stake)];
                    let mut reg = ProtocolKeyRegistration::init(&dist2);
                    expect("pool_not_in_distribution_claiming_B", if reg.register(SignerRegistrationParameters { party_id: Some(b.party_id.clone()), ..base(a) }).is_ok() { "ok".to_string() } else { "rejected".to_string() }, "rejected");
                }
                expect("no_cert_claimed_party_A", run(SignerRegistrationParameters { party_id: Some(a.party_id.clone()), operational_certificate: None, ..base(a) }), "rejected");
                expect("no_kes_signature", run(SignerRegistrationParameters { verification_key_signature_for_concatenation: None, ..base(a) }), "rejected");
                {
                    let mut reg = ProtocolKeyRegistration::init(&dist);
                    let first = reg.register(base(a)).is_ok();
                    let second = reg.register(base(a)).is_ok();
                    expect("same_key_twice", format!("{}/{}", first, second), "true/false");
                }
                {
                    let dist2: Vec<(String, u64)> = vec![(b.party_id.clone(), b.stake)];
                    let mut reg = ProtocolKeyRegistration::init(&dist2);
                    expect("pool_not_in_distribution", if reg.register(base(a)).is_ok() { "ok".to_string() } else { "rejected".to_string() }, "rejected");
                }
                format!("registration {}", out.join(" "))
            }
            "slot_binding" => {
                // forged submissions that every correct verifier rejects: the signature does not verify, for this message, under
                // the key registered at the slot it names
                use mithril_common::entities::{ProtocolMessage, ProtocolMessagePartKey, SingleSignature};
                use mithril_common::protocol::SignerBuilder;
                use mithril_common::test::builder::MithrilFixtureBuilder;
                let fixture = MithrilFixtureBuilder::default().with_signers(4).build();
                let mk = || SignerBuilder::new(&fixture.signers_with_stake(), &fixture.protocol_parameters()).unwrap().build_multi_signer();
                let mut m1 = ProtocolMessage::new();
                m1.set_message_part(ProtocolMessagePartKey::SnapshotDigest, "digest-1".to_string());
                let mut m2 = ProtocolMessage::new();
                m2.set_message_part(ProtocolMessagePartKey::SnapshotDigest, "digest-2".to_string());
                let signers = fixture.signers_fixture();
                let sig_a = match signers.iter().find_map(|s| s.sign(&m1)) { Some(s) => s, None => { println!("scenario-not-built"); continue; } };
                let slot_a = sig_a.to_protocol_signature().signer_index;
                let with_slot = |slot: u64, label: &str| -> SingleSignature {
                    let mut ps = sig_a.to_protocol_signature();
                    ps.signer_index = slot;
                    SingleSignature { party_id: label.to_string(), signature: ps.into(), ..sig_a.clone() }
                };
                let mut out = Vec::new();
                let mut expect_reject = |name: &str, ok: bool| out.push(format!("{}={}", name, if ok { "VIOLATED accepted" } else { "rejected" }));
                let ms = mk();
                let honest = ms.verify_single_signature(&m1, &sig_a).is_ok();
                expect_reject("unregistered_slot", mk().verify_single_signature(&m1, &with_slot(signers.len() as u64 + 7, &sig_a.party_id)).is_ok());
                expect_reject("slot_max", mk().verify_single_signature(&m1, &with_slot(u64::MAX, "pool1unregistered")).is_ok());
                for other in 0..signers.len() as u64 {
                    if other != slot_a {
                        expect_reject(&format!("moved_to_slot_{}", other), mk().verify_single_signature(&m1, &with_slot(other, &signers[other as usize].party_id())).is_ok());
                    }
                }
                expect_reject("other_message_fresh_instance", mk().verify_single_signature(&m2, &sig_a).is_ok());
                // same instance, after it accepted the signature for its own message
                expect_reject("other_message_after_accepting_the_real_one", ms.verify_single_signature(&m2, &sig_a).is_ok());
                expect_reject("moved_slot_after_accepting_the_real_one", ms.verify_single_signature(&m1, &with_slot((slot_a + 1) % signers.len() as u64, &sig_a.party_id)).is_ok());
                format!("slot_binding honest={} {}", if honest { "accepted" } else { "VIOLATED rejected" }, out.join(" "))
            }
            "attribution" => {
                // A's own signature under A's label, under B's label, and under an unregistered label
                use mithril_common::entities::{ProtocolMessage, ProtocolMessagePartKey};
                use mithril_common::protocol::SignerBuilder;
                use mithril_common::test::builder::MithrilFixtureBuilder;
                let fixture = MithrilFixtureBuilder::default().with_signers(3).build();
                let multi_signer = SignerBuilder::new(&fixture.signers_with_stake(), &fixture.protocol_parameters()).unwrap().build_multi_signer();
                let mut message = ProtocolMessage::new();
                message.set_message_part(ProtocolMessagePartKey::SnapshotDigest, "digest".to_string());
                let signers = fixture.signers_fixture();
                let mut found = None;
                for s in signers.iter() {
                    if let Some(sig) = s.sign(&message) {
                        found = Some((s.party_id(), sig));
                        break;
                    }
                }
                match found {
                    None => "scenario-not-built".to_string(),
                    Some((owner, sig)) => {
                        let other = signers.iter().map(|s| s.party_id()).find(|p| *p != owner).unwrap();
                        let v = |label: &str| {
                            let mut s2 = sig.clone();
                            s2.party_id = label.to_string();
                            if multi_signer.verify_single_signature(&message, &s2).is_ok() { "accepted" } else { "rejected" }
                        };
                        format!("own-label={} other-label={} unregistered-label={}", v(&owner), v(&other), v("pool1unregistered"))
                    }
                }
            }
            // leaf_eq item|node block <hash> <n> <slot> <hash> <n> <slot>      |  leaf_eq item|node tx <txhash> <bhash> <n> <slot> (x2)
            "leaf_eq" => {
                use mithril_common::crypto_helper::MKTreeNode;
                use mithril_common::entities::{CardanoBlock, CardanoBlockTransactionMkTreeNode as Node, CardanoTransaction};
                let h = |s: &str| if s == "-" { String::new() } else { s.to_string() };
                let n = |s: &str| s.parse::<u64>().unwrap();
                let mk = |q: &[&str]| -> MKTreeNode {
                    match (p[1], p[2]) {
                        ("item", "block") => {
                            let node: Node = CardanoBlock::new(h(q[0]), BlockNumber(n(q[1])), SlotNumber(n(q[2]))).into();
                            node.into()
                        }
                        ("node", "block") => Node::Block { block_hash: h(q[0]), block_number: BlockNumber(n(q[1])), slot_number: SlotNumber(n(q[2])) }.into(),
                        ("item", _) => {
                            let node: Node = CardanoTransaction::new(h(q[0]), BlockNumber(n(q[2])), SlotNumber(n(q[3])), h(q[1])).into();
                            node.into()
                        }
                        _ => Node::Transaction { transaction_hash: h(q[0]), block_hash: h(q[1]), block_number: BlockNumber(n(q[2])), slot_number: SlotNumber(n(q[3])) }.into(),
                    }
                };
                let k = if p[2] == "block" { 3 } else { 4 };
                let a = mk(&p[3..3 + k]);
                let b = mk(&p[3 + k..3 + 2 * k]);
                if a == b { "equal".to_string() } else { "different".to_string() }
            }
            "stake_root" => {
                use mithril_common::signable_builder::CardanoStakeDistributionSignableBuilder as B;
                let d1 = std::collections::BTreeMap::from([(p[1].to_string(), p[2].parse::<u64>().unwrap())]);
                let d2 = std::collections::BTreeMap::from([(p[3].to_string(), p[4].parse::<u64>().unwrap())]);
                let r1 = B::compute_merkle_tree_from_stake_distribution(d1).unwrap().compute_root().unwrap();
                let r2 = B::compute_merkle_tree_from_stake_distribution(d2).unwrap().compute_root().unwrap();
                if r1 == r2 { "equal".to_string() } else { "different".to_string() }
            }
            "chain_link" => chain_link(p[1].parse().unwrap()),
            "cert_hash" => cert_hash(p[1]),
            "leaf_eqx" => leaf_eqx(p[1]),
            "cert_roundtrip" => cert_roundtrip(),
            "pm_hash" => pm_hash(p[1]),
            "epoch_gap" => {
                let a = Epoch(p[1].parse().unwrap());
                let b = Epoch(p[2].parse().unwrap());
                a.has_gap_with(&b).to_string()
            }
            _ => "unknown-query".to_string(),
        };
        println!("{}", out);
    }
}


fn unhex(s: &str) -> String {
    let bytes: Vec<u8> = (0..s.len() / 2).map(|i| u8::from_str_radix(&s[2 * i..2 * i + 2], 16).unwrap()).collect();
    String::from_utf8_lossy(&bytes).to_string()
}

/// cert_hash <hex of JSON {"field": name, "a": value, "b": value}>: two certificates that differ in that field only; are their hashes equal?
/// strings travel hex-encoded, integers as decimal strings, signed entity types as "MithrilStakeDistribution:5" / "CardanoDatabase:5:7" ...
fn cert_hash(spec_hex: &str) -> String {
    use chrono::{DateTime, Utc};
    use mithril_common::entities::{CardanoDbBeacon, Certificate, CertificateSignature, SignedEntityType, StakeDistributionParty};
    use mithril_common::test::builder::{CertificateChainBuilder, MithrilFixtureBuilder};
    let spec: serde_json::Value = match serde_json::from_str(&unhex(spec_hex)) { Ok(v) => v, Err(e) => return format!("unsupported (spec: {})", e) };
    let field = spec["field"].as_str().unwrap_or("").to_string();
    let chain = CertificateChainBuilder::new().with_total_certificates(3).with_certificates_per_epoch(1).build();
    let base: Certificate = chain.certificates_chained[0].clone();
    let genesis: Certificate = chain.genesis_certificate().clone();
    let other: Certificate = chain.certificates_chained[1].clone();
    let _ = MithrilFixtureBuilder::default();
    let num = |v: &serde_json::Value| -> i128 { v.as_str().map(|s| s.parse::<i128>().unwrap_or(0)).unwrap_or_else(|| v.as_i64().unwrap_or(0) as i128) };
    let time = |v: &serde_json::Value| -> Option<DateTime<Utc>> {
        let ns = num(v);
        DateTime::<Utc>::from_timestamp(ns.div_euclid(1_000_000_000) as i64, ns.rem_euclid(1_000_000_000) as u32)
    };
    let entity = |v: &serde_json::Value| -> Option<SignedEntityType> {
        let t = v.as_str()?.to_string();
        let q: Vec<&str> = t.split(':').collect();
        let n = |i: usize| q.get(i).and_then(|x| x.parse::<u64>().ok()).unwrap_or(0);
        Some(match q[0] {
            "MithrilStakeDistribution" => SignedEntityType::MithrilStakeDistribution(Epoch(n(1))),
            "CardanoStakeDistribution" => SignedEntityType::CardanoStakeDistribution(Epoch(n(1))),
            "CardanoDatabase" => SignedEntityType::CardanoDatabase(CardanoDbBeacon::new(n(1), n(2))),
            "CardanoTransactions" => SignedEntityType::CardanoTransactions(Epoch(n(1)), BlockNumber(n(2))),
            "CardanoBlocksTransactions" => SignedEntityType::CardanoBlocksTransactions(Epoch(n(1)), BlockNumber(n(2)), mithril_common::entities::BlockNumberOffset(n(3))),
            _ => return None,
        })
    };
    let mut unsupported = false;
    let signer_index = |f: &str| -> usize { f.split('[').nth(1).and_then(|x| x.split(']').next()).and_then(|x| x.parse().ok()).unwrap_or(0) };
    let mut apply = |c: &mut Certificate, f: &str, v: &serde_json::Value, second: bool, strict: bool| {
        let before = unsupported;
        let sv = || unhex(v.as_str().unwrap_or(""));
        if f == "previous_hash" { c.previous_hash = sv(); }
        else if f == "signed_message" { c.signed_message = sv(); }
        else if f == "epoch.0" { c.epoch = Epoch(num(v) as u64); }
        else if f == "metadata.network" { c.metadata.network = sv(); }
        else if f == "metadata.protocol_version" { c.metadata.protocol_version = sv(); }
        else if f == "metadata.protocol_parameters.k" { c.metadata.protocol_parameters.k = num(v) as u64; }
        else if f == "metadata.protocol_parameters.m" { c.metadata.protocol_parameters.m = num(v) as u64; }
        else if f == "metadata.protocol_parameters.phi_f" { c.metadata.protocol_parameters.phi_f = if second { 0.5 } else { 0.2 }; }
        else if f == "metadata.initiated_at" { match time(v) { Some(t) => c.metadata.initiated_at = t, None => unsupported = true } }
        else if f == "metadata.sealed_at" { match time(v) { Some(t) => c.metadata.sealed_at = t, None => unsupported = true } }
        else if f.starts_with("metadata.signers") {
            let j = signer_index(f);
            while c.metadata.signers.len() <= j { c.metadata.signers.push(StakeDistributionParty { party_id: format!("p{}", c.metadata.signers.len()), stake: 1 }); }
            if f.ends_with("party_id") { c.metadata.signers[j].party_id = sv(); }
            else if f.ends_with("stake") { c.metadata.signers[j].stake = num(v) as u64; }
            else if f.ends_with("len") {
                if second {
                    let extra = &spec["extra_signer"];
                    let (pid, st) = if extra.is_array() { (unhex(extra[0].as_str().unwrap_or("")), extra[1].as_str().and_then(|x| x.parse::<u64>().ok()).unwrap_or(7)) } else { ("extra".to_string(), 7) };
                    c.metadata.signers.push(StakeDistributionParty { party_id: pid, stake: st });
                }
            }
            else { unsupported = true; }
        }
        else if let Some(k) = f.strip_prefix("protocol_message.part.") {
            match serde_json::from_value::<mithril_common::entities::ProtocolMessagePartKey>(serde_json::json!(part_key_name(k))) {
                Ok(key) => { c.protocol_message.set_message_part(key, sv()); }
                Err(_) => unsupported = true,
            }
        }
        else if f == "signature.entity" {
            match (entity(v), &c.signature) {
                (Some(e), CertificateSignature::MultiSignature(_, sig)) => c.signature = CertificateSignature::MultiSignature(e, sig.clone()),
                _ => unsupported = true,
            }
        }
        else if f == "aggregate_verification_key" { if second { c.aggregate_verification_key = other.aggregate_verification_key.clone(); } }
        else if f == "signature.MultiSignature.1" {
            if second { if let (CertificateSignature::MultiSignature(e, _), CertificateSignature::MultiSignature(_, s2)) = (&c.signature, &other.signature) { c.signature = CertificateSignature::MultiSignature(e.clone(), s2.clone()); } }
        }
        else if f == "signature.discr" { if second { c.signature = genesis.signature.clone(); } }
        else if f == "ancillary_prover_data.is_some" { if second { c.ancillary_prover_data = None; } else if c.ancillary_prover_data.is_none() { unsupported = true; } }
        else if f == "ancillary_verifier_data.is_some" { if second { c.ancillary_verifier_data = None; } else if c.ancillary_verifier_data.is_none() { unsupported = true; } }
        else { unsupported = true; }
        if !strict { unsupported = before; }
    };
    let mut ca = base.clone();
    let mut cb = base.clone();
    // the metadata of the base fixture keeps only as many signers as the model has
    if let Some(common) = spec["common"].as_array() {
        let nsig = common.iter().filter(|kv| kv[0].as_str().map(|f| f.ends_with("party_id")).unwrap_or(false)).count();
        if nsig > 0 { ca.metadata.signers.truncate(nsig); cb.metadata.signers.truncate(nsig); }
        for kv in common.iter() {
            let f = kv[0].as_str().unwrap_or("").to_string();
            apply(&mut ca, &f, &kv[1], false, false);
            apply(&mut cb, &f, &kv[1], false, false);
        }
    }
    let fname = field.clone();
    apply(&mut ca, &fname, &spec["a"], false, true);
    apply(&mut cb, &fname, &spec["b"], true, true);
    if unsupported { return format!("unsupported (field {})", field); }
    match (ca.try_compute_hash(), cb.try_compute_hash()) {
        (Ok(x), Ok(y)) => if x == y { "equal".to_string() } else { "different".to_string() },
        _ => "unsupported (hash failed)".to_string(),
    }
}

fn part_key_name(variant: &str) -> String {
    // CamelCase variant -> the serde name (snake_case)
    let mut out = String::new();
    for (i, ch) in variant.chars().enumerate() {
        if ch.is_uppercase() { if i > 0 { out.push('_'); } out.push(ch.to_ascii_lowercase()); } else { out.push(ch); }
    }
    match out.as_str() { "next_snark_aggregate_verification_key" => "next_aggregate_verification_key_snark".to_string(), _ => out }
}

/// pm_hash <hex of JSON {"a": {variant: value-hex, ..}, "b": {..}}>: do the two protocol messages have the same digest?
fn pm_hash(spec_hex: &str) -> String {
    use mithril_common::entities::{ProtocolMessage, ProtocolMessagePartKey};
    let spec: serde_json::Value = match serde_json::from_str(&unhex(spec_hex)) { Ok(v) => v, Err(e) => return format!("unsupported (spec: {})", e) };
    let build = |v: &serde_json::Value| -> Option<ProtocolMessage> {
        let mut m = ProtocolMessage::new();
        for (k, val) in v.as_object()? {
            let key: ProtocolMessagePartKey = serde_json::from_value(serde_json::json!(part_key_name(k))).ok()?;
            m.set_message_part(key, unhex(val.as_str()?));
        }
        Some(m)
    };
    match (build(&spec["a"]), build(&spec["b"])) {
        (Some(a), Some(b)) => format!("{} {}", if a.compute_hash() == b.compute_hash() { "equal-digests" } else { "different-digests" }, if a == b { "equal-messages" } else { "different-messages" }),
        _ => "unsupported".to_string(),
    }
}


/// certificates of a generated chain (genesis + standard, several signed entity types): Certificate -> CertificateMessage -> JSON text
/// -> CertificateMessage -> Certificate must preserve every field, the recomputed hash and the signed message
fn cert_roundtrip() -> String {
    use mithril_common::entities::{CardanoDbBeacon, Certificate, CertificateSignature, SignedEntityType};
    use mithril_common::messages::CertificateMessage;
    use mithril_common::test::builder::CertificateChainBuilder;
    let chain = CertificateChainBuilder::new().with_total_certificates(4).with_certificates_per_epoch(2).build();
    let mut certs: Vec<Certificate> = chain.certificates_chained.clone();
    // the same multi-signature under every signed entity type (the conversion does not look inside)
    let base = certs[0].clone();
    if let CertificateSignature::MultiSignature(_, sig) = &base.signature {
        for e in [SignedEntityType::MithrilStakeDistribution(Epoch(7)), SignedEntityType::CardanoStakeDistribution(Epoch(8)),
                  SignedEntityType::CardanoDatabase(CardanoDbBeacon::new(9, 10)), SignedEntityType::CardanoTransactions(Epoch(11), BlockNumber(12)),
                  SignedEntityType::CardanoBlocksTransactions(Epoch(13), BlockNumber(14), mithril_common::entities::BlockNumberOffset(15))] {
            let mut c = base.clone();
            c.signature = CertificateSignature::MultiSignature(e, sig.clone());
            c.previous_hash = "previous-hash-with-\"quotes\"-and-\u{e9}".to_string();
            c.hash = c.try_compute_hash().unwrap();
            certs.push(c);
        }
    }
    // certificates whose signed message is NOT the digest of their protocol message (anything may come over the wire), standard and genesis
    for src in [certs[0].clone(), chain.genesis_certificate().clone()] {
        let mut c = src;
        c.signed_message = "not-the-digest-of-the-protocol-message".to_string();
        c.hash = c.try_compute_hash().unwrap();
        certs.push(c);
    }
    let mut bad = Vec::new();
    for (i, c) in certs.iter().enumerate() {
        let msg: CertificateMessage = match c.clone().try_into() { Ok(m) => m, Err(_) => { bad.push(format!("{}:to-message-failed", i)); continue; } };
        let text = serde_json::to_string(&msg).unwrap();
        let msg2: CertificateMessage = match serde_json::from_str(&text) { Ok(m) => m, Err(_) => { bad.push(format!("{}:json-failed", i)); continue; } };
        let back: Certificate = match msg2.try_into() { Ok(b) => b, Err(_) => { bad.push(format!("{}:from-message-failed", i)); continue; } };
        let same_hash = back.try_compute_hash().ok() == c.try_compute_hash().ok() && back.hash == c.hash;
        let same_fields = back.previous_hash == c.previous_hash && back.epoch == c.epoch && back.metadata == c.metadata && back.protocol_message == c.protocol_message
            && back.signed_message == c.signed_message && back.signed_entity_type() == c.signed_entity_type() && back.is_genesis() == c.is_genesis()
            && back.aggregate_verification_key.to_json_hex().ok() == c.aggregate_verification_key.to_json_hex().ok()
            && back.signature.to_bytes_hex_for_certificate_hash().ok() == c.signature.to_bytes_hex_for_certificate_hash().ok();
        if !same_hash { bad.push(format!("{}:hash-changed", i)); }
        if !same_fields { bad.push(format!("{}:field-changed", i)); }
    }
    if bad.is_empty() { format!("roundtrip ok over {} certificates", certs.len()) } else { format!("roundtrip VIOLATED {}", bad.join(" ")) }
}


/// leaf_eqx <hex of JSON {"level": "item"|"node", "a": {"kind": "block"|"tx", "fields": [..]}, "b": {..}}>: are the two Merkle leaves equal?
/// block fields: [block_hash, block_number, slot_number]; tx fields: [transaction_hash, block_hash, block_number, slot_number]
fn leaf_eqx(spec_hex: &str) -> String {
    use mithril_common::crypto_helper::MKTreeNode;
    use mithril_common::entities::{CardanoBlock, CardanoBlockTransactionMkTreeNode as Node, CardanoTransaction};
    let spec: serde_json::Value = match serde_json::from_str(&unhex(spec_hex)) { Ok(v) => v, Err(e) => return format!("unsupported (spec: {})", e) };
    let item = spec["level"].as_str() == Some("item");
    let mk = |v: &serde_json::Value| -> Option<MKTreeNode> {
        let f = v["fields"].as_array()?;
        let s = |i: usize| f.get(i).and_then(|x| x.as_str()).unwrap_or("").to_string();
        let n = |i: usize| f.get(i).and_then(|x| x.as_u64().or_else(|| x.as_str().and_then(|t| t.parse().ok()))).unwrap_or(0);
        Some(match (v["kind"].as_str()?, item) {
            ("block", true) => { let node: Node = CardanoBlock::new(s(0), BlockNumber(n(1)), SlotNumber(n(2))).into(); node.into() }
            ("block", false) => Node::Block { block_hash: s(0), block_number: BlockNumber(n(1)), slot_number: SlotNumber(n(2)) }.into(),
            ("tx", true) => { let node: Node = CardanoTransaction::new(s(0), BlockNumber(n(2)), SlotNumber(n(3)), s(1)).into(); node.into() }
            _ => Node::Transaction { transaction_hash: s(0), block_hash: s(1), block_number: BlockNumber(n(2)), slot_number: SlotNumber(n(3)) }.into(),
        })
    };
    match (mk(&spec["a"]), mk(&spec["b"])) {
        (Some(a), Some(b)) => if a == b { "equal".to_string() } else { "different".to_string() },
        _ => "unsupported".to_string(),
    }
}
