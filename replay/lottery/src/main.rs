//! Native oracle for C08: the eligibility source file of /repo's working tree is compiled into this binary by path
//! inclusion (the function is pure and crate-private), exactly as the property's `observe_at` suggests.
//! stdin lines:  `<phi_f as f64 bits, hex> <ev as 128 hex chars, little endian bytes> <stake> <total>`  -> `true|false`
#![allow(dead_code, unused_macros, unused_imports)]

pub type PhiFValue = f64;
pub type Stake = u64;

macro_rules! cfg_num_integer {
    ($($item:item)*) => { $($item)* };
}
macro_rules! cfg_rug {
    ($($item:item)*) => {};
}

#[path = "/repo/mithril-stm/src/proof_system/concatenation/eligibility.rs"]
mod eligibility;

use std::io::BufRead;

fn main() {
    for line in std::io::stdin().lock().lines() {
        let line = line.unwrap();
        let p: Vec<&str> = line.split_whitespace().collect();
        if p.len() < 4 {
            continue;
        }
        let phi_f = f64::from_bits(u64::from_str_radix(p[0], 16).unwrap());
        let mut ev = [0u8; 64];
        for i in 0..64 {
            ev[i] = u8::from_str_radix(&p[1][2 * i..2 * i + 2], 16).unwrap();
        }
        let stake: u64 = p[2].parse().unwrap();
        let total: u64 = p[3].parse().unwrap();
        let r = std::panic::catch_unwind(|| eligibility::is_lottery_won(phi_f, ev, stake, total));
        match r {
            Ok(b) => println!("{}", b),
            Err(_) => println!("panic"),
        }
    }
}
