//! Native replay oracle for the STM properties (C01, C02): drives the *real* mithril-stm through its public API.
//! usage: verif-replay-stm index_at_m        -> builds an honest setup with phi_f = 1 (every index wins), rewrites one
//!                                              single signature so that it claims lottery index == m (through the
//!                                              type's own JSON form), aggregates and verifies.
//!        verif-replay-stm duplicate         -> aggregates [A, B] and [A, A, B] (C02 monotonicity under repetition)
use mithril_stm::{
    AggregateSignatureType, AncillaryGenesisData, AncillaryProofInput, Clerk, Initializer, KeyRegistration, MithrilMembershipDigest,
    Parameters, RegistrationEntry, Signer, SingleSignature,
};
use rand_chacha::ChaCha20Rng;
use rand_core::SeedableRng;

type D = MithrilMembershipDigest;

fn setup(params: Parameters, stakes: &[u64]) -> (Vec<Signer<D>>, Clerk<D>) {
    let mut rng = ChaCha20Rng::from_seed([7u8; 32]);
    let mut key_reg = KeyRegistration::initialize();
    let mut ps = Vec::new();
    for stake in stakes {
        let p = Initializer::new(params, *stake, &mut rng);
        let entry = RegistrationEntry::new(p.get_verification_key_proof_of_possession_for_concatenation(), p.stake).unwrap();
        key_reg.register_by_entry(&entry).unwrap();
        ps.push(p);
    }
    let closed = key_reg.close_registration(&params).unwrap();
    let signers: Vec<Signer<D>> = ps.into_iter().map(|p| p.try_create_signer(&closed).unwrap()).collect();
    let clerk = Clerk::new_clerk_from_signer(&signers[0]);
    (signers, clerk)
}

fn aggregate_and_verify(clerk: &Clerk<D>, sigs: &[SingleSignature], msg: &[u8], params: &Parameters) -> String {
    let genesis_data = AncillaryGenesisData::new();
    let input = AncillaryProofInput::new(None, genesis_data);
    match clerk.aggregate_signatures_with_type(sigs, msg, AggregateSignatureType::Concatenation, input) {
        Err(e) => format!("aggregation-failed ({})", e),
        Ok((aggr, out)) => match aggr.verify(msg, &clerk.compute_aggregate_verification_key(), params, out.verifier_data().cloned(), None) {
            Ok(()) => "accepted".to_string(),
            Err(e) => format!("rejected ({})", e),
        },
    }
}

fn index_at_m() -> String {
    let params = Parameters { m: 4, k: 3, phi_f: 1.0 };
    let (signers, clerk) = setup(params, &[10, 20]);
    let msg = b"verif-replay".to_vec();
    let sig = signers[0].create_single_signature(&msg).unwrap();
    // honest: indices 0..m-1 (phi_f = 1: every index wins).  Claim [1, 2, m] instead.
    let mut v: serde_json::Value = serde_json::to_value(&sig).unwrap();
    let honest = v["indexes"].clone();
    v["indexes"] = serde_json::json!([1, 2, params.m]);
    let forged: SingleSignature = serde_json::from_value(v).unwrap();
    let r = aggregate_and_verify(&clerk, &[forged], &msg, &params);
    format!("{} honest_indices={} claimed_indices=[1,2,{}] m={}", r, honest, params.m, params.m)
}

fn duplicate() -> String {
    let params = Parameters { m: 6, k: 6, phi_f: 1.0 };
    let (signers, clerk) = setup(params, &[10, 20]);
    let msg = b"verif-replay".to_vec();
    let a = signers[0].create_single_signature(&msg).unwrap();
    let r1 = aggregate_and_verify(&clerk, &[a.clone()], &msg, &params);
    let r2 = aggregate_and_verify(&clerk, &[a.clone(), a.clone()], &msg, &params);
    format!("[A]={} [A,A]={}", r1, r2)
}

/// signer-side won set vs the set of indices the single-signature verifier accepts one by one (same draw, same
/// phi_f, same registered stake, same total stake): the two must coincide.
fn sign_vs_verify() -> String {
    let params = Parameters { m: 400, k: 50, phi_f: 0.2 };
    let stakes = [5u64, 495, 500];
    let mut rng = ChaCha20Rng::from_seed([7u8; 32]);
    let mut key_reg = KeyRegistration::initialize();
    let mut inits = Vec::new();
    for stake in stakes {
        let p = Initializer::new(params, stake, &mut rng);
        let entry = RegistrationEntry::new(p.get_verification_key_proof_of_possession_for_concatenation(), p.stake).unwrap();
        key_reg.register_by_entry(&entry).unwrap();
        inits.push(p);
    }
    let closed = key_reg.close_registration(&params).unwrap();
    let vk = inits[0].get_verification_key_proof_of_possession_for_concatenation().vk;
    let signer: Signer<D> = inits[0].clone().try_create_signer::<D>(&closed).unwrap();
    let avk = Clerk::new_clerk_from_signer(&signer).compute_aggregate_verification_key();
    let found = (0u64..10_000).find_map(|c| {
        let msg = c.to_le_bytes();
        signer.create_single_signature(&msg).ok().map(|s| (msg, s))
    });
    let (msg, honest) = match found {
        Some(x) => x,
        None => return "no-winning-message".to_string(),
    };
    let won = honest.get_concatenation_signature_indices();
    let accepted: Vec<u64> = (0..params.m)
        .filter(|&i| {
            let mut c = honest.clone();
            c.set_concatenation_signature_indices(&[i]);
            c.verify(&params, &vk, &stakes[0], &avk, &msg).is_ok()
        })
        .collect();
    format!("{} signer_won={:?} verifier_accepts={} indices", if won == accepted { "agree" } else { "disagree" }, won, accepted.len())
}

fn main() {
    let a: Vec<String> = std::env::args().skip(1).collect();
    let out = match a.first().map(|s| s.as_str()) {
        Some("index_at_m") => index_at_m(),
        Some("duplicate") => duplicate(),
        Some("sign_vs_verify") => sign_vs_verify(),
        _ => "unknown-query".to_string(),
    };
    println!("{}", out);
}
