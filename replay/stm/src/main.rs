//! Native replay oracle for the STM properties (C01, C02): drives the *real* mithril-stm through its public API.
//! usage: verif-replay-stm index_at_m        -> builds an honest setup with phi_f = 1 (every index wins), rewrites one
//!                                              single signature so that it claims lottery index == m (through the
//!                                              type's own JSON form), aggregates and verifies.
//!        verif-replay-stm duplicate         -> aggregates [A, B] and [A, A, B] (C02 monotonicity under repetition)
use std::alloc::{GlobalAlloc, Layout, System};
use std::sync::atomic::{AtomicUsize, Ordering};

/// Allocator that records the largest single request and refuses requests above 1 GiB (the process then aborts with
/// std's "memory allocation of N bytes failed", which the driver parses): C05's "peak single-allocation size".
struct Tracking;
static MAX_ALLOC: AtomicUsize = AtomicUsize::new(0);
unsafe impl GlobalAlloc for Tracking {
    unsafe fn alloc(&self, layout: Layout) -> *mut u8 {
        MAX_ALLOC.fetch_max(layout.size(), Ordering::Relaxed);
        if layout.size() > (1 << 30) {
            return std::ptr::null_mut();
        }
        unsafe { System.alloc(layout) }
    }
    unsafe fn dealloc(&self, ptr: *mut u8, layout: Layout) {
        unsafe { System.dealloc(ptr, layout) }
    }
    unsafe fn realloc(&self, ptr: *mut u8, layout: Layout, new_size: usize) -> *mut u8 {
        MAX_ALLOC.fetch_max(new_size, Ordering::Relaxed);
        if new_size > (1 << 30) {
            return std::ptr::null_mut();
        }
        unsafe { System.realloc(ptr, layout, new_size) }
    }
}
#[global_allocator]
static GLOBAL: Tracking = Tracking;

fn decode(which: &str, hex: &str) -> String {
    let bytes: Vec<u8> = (0..hex.len() / 2).map(|i| u8::from_str_radix(&hex[2 * i..2 * i + 2], 16).unwrap()).collect();
    MAX_ALLOC.store(0, Ordering::Relaxed);
    std::panic::set_hook(Box::new(|_| {}));
    let r = std::panic::catch_unwind(|| match which {
        "aggregate_signature" => mithril_stm::AggregateSignature::<D>::from_bytes(&bytes).is_ok(),
        "single_signature_with_registered_party" => mithril_stm::SingleSignatureWithRegisteredParty::from_bytes::<D>(&bytes).is_ok(),
        "single_signature" => SingleSignature::from_bytes::<D>(&bytes).is_ok(),
        "initializer" => Initializer::from_bytes(&bytes).is_ok(),
        "parameters" => Parameters::from_bytes(&bytes).is_ok(),
        "aggregate_verification_key" => mithril_stm::AggregateVerificationKeyForConcatenation::<D>::from_bytes(&bytes).is_ok(),
        _ => panic!("unknown decoder"),
    });
    let m = MAX_ALLOC.load(Ordering::Relaxed);
    match r {
        Ok(true) => format!("ok max_alloc={}", m),
        Ok(false) => format!("err max_alloc={}", m),
        Err(e) => {
            let msg = e.downcast_ref::<String>().cloned().or_else(|| e.downcast_ref::<&str>().map(|s| s.to_string())).unwrap_or_default();
            format!("panic ({}) max_alloc={}", msg, m)
        }
    }
}

use mithril_stm::{
    AggregateSignatureType, AncillaryGenesisData, AncillaryProofInput, Clerk, Initializer, KeyRegistration, MithrilMembershipDigest,
    Parameters, RegistrationEntry, Signer, SingleSignature,
};
use rand_chacha::ChaCha20Rng;
use rand_core::SeedableRng;

type D = MithrilMembershipDigest;

fn setup(params: Parameters, stakes: &[u64]) -> (Vec<Signer<D>>, Clerk<D>) {
    let mut rng = ChaCha20Rng::from_seed([7u8; 32]);
    let mut key_reg = KeyRegistration::initialize();
    let mut ps = Vec::new();
    for stake in stakes {
        let p = Initializer::new(params, *stake, &mut rng);
        let entry = RegistrationEntry::new(p.get_verification_key_proof_of_possession_for_concatenation(), p.stake).unwrap();
        key_reg.register_by_entry(&entry).unwrap();
        ps.push(p);
    }
    let closed = key_reg.close_registration(&params).unwrap();
    let signers: Vec<Signer<D>> = ps.into_iter().map(|p| p.try_create_signer(&closed).unwrap()).collect();
    let clerk = Clerk::new_clerk_from_signer(&signers[0]);
    (signers, clerk)
}

fn aggregate_and_verify(clerk: &Clerk<D>, sigs: &[SingleSignature], msg: &[u8], params: &Parameters) -> String {
    let genesis_data = AncillaryGenesisData::new();
    let input = AncillaryProofInput::new(None, genesis_data);
    match clerk.aggregate_signatures_with_type(sigs, msg, AggregateSignatureType::Concatenation, input) {
        Err(e) => format!("aggregation-failed ({})", e),
        Ok((aggr, out)) => match aggr.verify(msg, &clerk.compute_aggregate_verification_key(), params, out.verifier_data().cloned(), None) {
            Ok(()) => "accepted".to_string(),
            Err(e) => format!("rejected ({})", e),
        },
    }
}

fn index_at_m() -> String {
    let params = Parameters { m: 4, k: 3, phi_f: 1.0 };
    let (signers, clerk) = setup(params, &[10, 20]);
    let msg = b"verif-replay".to_vec();
    let sig = signers[0].create_single_signature(&msg).unwrap();
    // honest: indices 0..m-1 (phi_f = 1: every index wins).  Claim [1, 2, m] instead.
    let mut v: serde_json::Value = serde_json::to_value(&sig).unwrap();
    let honest = v["indexes"].clone();
    v["indexes"] = serde_json::json!([1, 2, params.m]);
    let forged: SingleSignature = serde_json::from_value(v).unwrap();
    let r = aggregate_and_verify(&clerk, &[forged], &msg, &params);
    format!("{} honest_indices={} claimed_indices=[1,2,{}] m={}", r, honest, params.m, params.m)
}

fn duplicate() -> String {
    let params = Parameters { m: 6, k: 6, phi_f: 1.0 };
    let (signers, clerk) = setup(params, &[10, 20]);
    let msg = b"verif-replay".to_vec();
    let a = signers[0].create_single_signature(&msg).unwrap();
    let r1 = aggregate_and_verify(&clerk, &[a.clone()], &msg, &params);
    let r2 = aggregate_and_verify(&clerk, &[a.clone(), a.clone()], &msg, &params);
    format!("[A]={} [A,A]={}", r1, r2)
}

/// signer-side won set vs the set of indices the single-signature verifier accepts one by one (same draw, same
/// phi_f, same registered stake, same total stake): the two must coincide.
fn sign_vs_verify() -> String {
    let params = Parameters { m: 400, k: 50, phi_f: 0.2 };
    let stakes = [5u64, 495, 500];
    let mut rng = ChaCha20Rng::from_seed([7u8; 32]);
    let mut key_reg = KeyRegistration::initialize();
    let mut inits = Vec::new();
    for stake in stakes {
        let p = Initializer::new(params, stake, &mut rng);
        let entry = RegistrationEntry::new(p.get_verification_key_proof_of_possession_for_concatenation(), p.stake).unwrap();
        key_reg.register_by_entry(&entry).unwrap();
        inits.push(p);
    }
    let closed = key_reg.close_registration(&params).unwrap();
    let vk = inits[0].get_verification_key_proof_of_possession_for_concatenation().vk;
    let signer: Signer<D> = inits[0].clone().try_create_signer::<D>(&closed).unwrap();
    let avk = Clerk::new_clerk_from_signer(&signer).compute_aggregate_verification_key();
    let found = (0u64..10_000).find_map(|c| {
        let msg = c.to_le_bytes();
        signer.create_single_signature(&msg).ok().map(|s| (msg, s))
    });
    let (msg, honest) = match found {
        Some(x) => x,
        None => return "no-winning-message".to_string(),
    };
    let won = honest.get_concatenation_signature_indices();
    let accepted: Vec<u64> = (0..params.m)
        .filter(|&i| {
            let mut c = honest.clone();
            c.set_concatenation_signature_indices(&[i]);
            c.verify(&params, &vk, &stakes[0], &avk, &msg).is_ok()
        })
        .collect();
    format!("{} signer_won={:?} verifier_accepts={} indices", if won == accepted { "agree" } else { "disagree" }, won, accepted.len())
}

fn agg_json(clerk: &Clerk<D>, sigs: &[SingleSignature], msg: &[u8]) -> serde_json::Value {
    let input = AncillaryProofInput::new(None, AncillaryGenesisData::new());
    let (aggr, _) = clerk.aggregate_signatures_with_type(sigs, msg, AggregateSignatureType::Concatenation, input).unwrap();
    serde_json::to_value(&aggr).unwrap()
}

fn with_indexes(sig: &SingleSignature, idx: &[u64]) -> SingleSignature {
    let mut c = sig.clone();
    c.set_concatenation_signature_indices(idx);
    c
}

fn verdict(r: Result<(), impl std::fmt::Display>) -> String {
    match r {
        Ok(()) => "accepted".to_string(),
        Err(e) => format!("rejected ({})", e),
    }
}

/// the same lottery index claimed by two different signatures: 3 pairwise-distinct indices, 4 occurrences, k = 4
fn cross_dup() -> String {
    let params = Parameters { m: 6, k: 4, phi_f: 1.0 };
    let (signers, clerk) = setup(params, &[10, 20]);
    let msg = b"verif-replay".to_vec();
    let a = with_indexes(&signers[0].create_single_signature(&msg).unwrap(), &[0, 1]);
    let b = with_indexes(&signers[1].create_single_signature(&msg).unwrap(), &[2, 3]);
    let mut v = agg_json(&clerk, &[a, b], &msg);
    // {"signatures": [[{"sigma","indexes","signer_index"}, [vk, stake]], ...], "batch_proof": ...}
    let mut changed = false;
    for entry in v["signatures"].as_array_mut().unwrap() {
        if entry[0]["indexes"] == serde_json::json!([2, 3]) {
            entry[0]["indexes"] = serde_json::json!([1, 2]);
            changed = true;
        }
    }
    if !changed {
        return "scenario-not-built".to_string();
    }
    let forged: mithril_stm::AggregateSignature<D> = serde_json::from_value(v).unwrap();
    format!("{} distinct=3 occurrences=4 k=4", verdict(forged.verify(&msg, &clerk.compute_aggregate_verification_key(), &params, None, None)))
}

/// an extra entry claiming the signer slot of a committed one but an uncommitted (inflated) stake, placed before it
fn uncommitted_leaf() -> String {
    let params = Parameters { m: 6, k: 4, phi_f: 1.0 };
    let (signers, clerk) = setup(params, &[10, 20]);
    let msg = b"verif-replay".to_vec();
    let a = with_indexes(&signers[0].create_single_signature(&msg).unwrap(), &[0, 1]);
    let adversary_params = Parameters { k: 2, ..params };
    let adversary_clerk = Clerk::new_clerk_from_signer(&signers[0]);
    let _ = adversary_params;
    let input = AncillaryProofInput::new(None, AncillaryGenesisData::new());
    // aggregate of the single honest entry under k = 2 (own clerk with k=2)
    let (_, clerk2) = setup(Parameters { k: 2, ..params }, &[10, 20]);
    let (base, _) = match clerk2.aggregate_signatures_with_type(std::slice::from_ref(&a), &msg, AggregateSignatureType::Concatenation, input) {
        Ok(x) => x,
        Err(e) => return format!("scenario-not-built ({})", e),
    };
    let _ = adversary_clerk;
    let base_json = serde_json::to_value(&base).unwrap();
    let mut forged_entry = base_json["signatures"][0].clone();
    forged_entry[0]["indexes"] = serde_json::json!([2, 3]);
    forged_entry[1][1] = serde_json::json!(1_000_000u64); // stake not committed by the aggregate key
    let mut out = Vec::new();
    for pos in [0usize, 1] {
        let mut j = base_json.clone();
        j["signatures"].as_array_mut().unwrap().insert(pos, forged_entry.clone());
        let forged: mithril_stm::AggregateSignature<D> = serde_json::from_value(j).unwrap();
        out.push(format!("pos{}={}", pos, verdict(forged.verify(&msg, &clerk.compute_aggregate_verification_key(), &params, None, None))));
    }
    out.join(" ")
}

/// sigma and indexes swapped between two equal-stake slots: each signature is invalid under its slot's key, the sums match
fn batch_swap() -> String {
    let params = Parameters { m: 6, k: 4, phi_f: 1.0 };
    let (signers, clerk) = setup(params, &[10, 10]);
    let msg = b"verif-replay".to_vec();
    let a = with_indexes(&signers[0].create_single_signature(&msg).unwrap(), &[0, 1]);
    let b = with_indexes(&signers[1].create_single_signature(&msg).unwrap(), &[2, 3]);
    let mut v = agg_json(&clerk, &[a, b], &msg);
    let arr = v["signatures"].as_array_mut().unwrap();
    if arr.len() != 2 {
        return "scenario-not-built".to_string();
    }
    let (s0, i0) = (arr[0][0]["sigma"].clone(), arr[0][0]["indexes"].clone());
    let (s1, i1) = (arr[1][0]["sigma"].clone(), arr[1][0]["indexes"].clone());
    arr[0][0]["sigma"] = s1;
    arr[0][0]["indexes"] = i1;
    arr[1][0]["sigma"] = s0;
    arr[1][0]["indexes"] = i0;
    let forged: mithril_stm::AggregateSignature<D> = serde_json::from_value(v).unwrap();
    let avk = clerk.compute_aggregate_verification_key();
    let single = verdict(forged.verify(&msg, &avk, &params, None, None));
    let batch = verdict(mithril_stm::AggregateSignature::<D>::batch_verify(&[forged], &[msg.clone()], &[avk], &[params], &[None], &[None]));
    format!("alone={} batch={}", single, batch)
}

fn catch(f: impl FnOnce() -> String + std::panic::UnwindSafe) -> String {
    std::panic::set_hook(Box::new(|_| {}));
    match std::panic::catch_unwind(f) {
        Ok(s) => s,
        Err(e) => {
            let msg = e.downcast_ref::<String>().cloned().or_else(|| e.downcast_ref::<&str>().map(|s| s.to_string())).unwrap_or_default();
            format!("panic ({})", msg)
        }
    }
}

/// an otherwise honest aggregate whose batch path claims leaf index usize::MAX
fn merkle_index_overflow() -> String {
    let params = Parameters { m: 4, k: 2, phi_f: 1.0 };
    let (signers, clerk) = setup(params, &[10, 20]);
    let msg = b"verif-replay".to_vec();
    let a = with_indexes(&signers[0].create_single_signature(&msg).unwrap(), &[0, 1]);
    let mut v = agg_json(&clerk, &[a], &msg);
    v["batch_proof"]["indices"] = serde_json::json!([u64::MAX]);
    let forged: mithril_stm::AggregateSignature<D> = serde_json::from_value(v).unwrap();
    let avk = clerk.compute_aggregate_verification_key();
    catch(move || verdict(forged.verify(&msg, &avk, &params, None, None)))
}

/// an aggregate with no signature and an empty batch path, verified under k = 0
fn merkle_empty_proof() -> String {
    let params = Parameters { m: 4, k: 2, phi_f: 1.0 };
    let (signers, clerk) = setup(params, &[10, 20]);
    let msg = b"verif-replay".to_vec();
    let a = with_indexes(&signers[0].create_single_signature(&msg).unwrap(), &[0, 1]);
    let mut v = agg_json(&clerk, &[a], &msg);
    v["signatures"] = serde_json::json!([]);
    v["batch_proof"]["indices"] = serde_json::json!([]);
    v["batch_proof"]["values"] = serde_json::json!([]);
    let forged: mithril_stm::AggregateSignature<D> = serde_json::from_value(v).unwrap();
    let avk = clerk.compute_aggregate_verification_key();
    let zero_k = Parameters { k: 0, ..params };
    catch(move || verdict(forged.verify(&msg, &avk, &zero_k, None, None)))
}

/// forged membership claims through the aggregate verifier: every one must be rejected
fn merkle_battery() -> String {
    let params = Parameters { m: 4, k: 2, phi_f: 1.0 };
    let (signers, clerk) = setup(params, &[10, 20, 30]);
    let msg = b"verif-replay".to_vec();
    let avk = clerk.compute_aggregate_verification_key();
    let a = with_indexes(&signers[0].create_single_signature(&msg).unwrap(), &[0, 1]);
    let b = with_indexes(&signers[1].create_single_signature(&msg).unwrap(), &[0, 1]);
    let va = agg_json(&clerk, &[a], &msg);
    let vb = agg_json(&clerk, &[b], &msg);
    let mut out = Vec::new();
    let mut check = |name: &str, v: serde_json::Value| {
        let r = match serde_json::from_value::<mithril_stm::AggregateSignature<D>>(v) {
            Ok(f) => {
                let (m2, avk2, p2) = (msg.clone(), avk.clone(), params);
                catch(move || verdict(f.verify(&m2, &avk2, &p2, None, None)))
            }
            Err(_) => "rejected (decode)".to_string(),
        };
        let bad = (name == "honest") != r.starts_with("accepted");
        out.push(format!("{}={}{}", name, if bad { "VIOLATED " } else { "" }, r.chars().take(24).collect::<String>()));
    };
    // honest control
    check("honest", va.clone());
    // a's path with b's registered party (leaf replaced)
    let mut v = va.clone();
    v["signatures"][0][1] = vb["signatures"][0][1].clone();
    check("leaf_replaced", v);
    // a's entry, b's path (path nodes altered)
    let mut v = va.clone();
    v["batch_proof"]["values"] = vb["batch_proof"]["values"].clone();
    check("path_values_swapped", v);
    // index moved
    let mut v = va.clone();
    v["batch_proof"]["indices"] = vb["batch_proof"]["indices"].clone();
    check("index_moved", v);
    // stake edited (leaf = (vk, stake))
    let mut v = va.clone();
    v["signatures"][0][1][1] = serde_json::json!(11);
    check("stake_edited", v);
    out.join(" ")
}

/// the same three registrations (two with equal stake) registered in every order: aggregate key, total stake and
/// signer slots must coincide
fn avk_orders() -> String {
    let params = Parameters { m: 4, k: 2, phi_f: 0.5 };
    let mut rng = ChaCha20Rng::from_seed([3u8; 32]);
    let inits: Vec<Initializer> = [7u64, 7, 9].iter().map(|s| Initializer::new(params, *s, &mut rng)).collect();
    let orders = [[0usize, 1, 2], [0, 2, 1], [1, 0, 2], [1, 2, 0], [2, 0, 1], [2, 1, 0]];
    let mut reference: Option<(String, Vec<u64>)> = None;
    let mut bad = 0;
    for order in orders.iter() {
        let mut key_reg = KeyRegistration::initialize();
        for i in order.iter() {
            let p = &inits[*i];
            let entry = RegistrationEntry::new(p.get_verification_key_proof_of_possession_for_concatenation(), p.stake).unwrap();
            key_reg.register_by_entry(&entry).unwrap();
        }
        let closed = key_reg.close_registration(&params).unwrap();
        let maybe: Vec<Option<Signer<D>>> = inits.iter().map(|p| p.clone().try_create_signer(&closed).ok()).collect();
        if maybe.iter().any(|s| s.is_none()) {
            return format!("VIOLATED order {:?}: a registered party is missing from the closed registration", order);
        }
        let signers: Vec<Signer<D>> = maybe.into_iter().map(|s| s.unwrap()).collect();
        let avk = format!("{:?}", Clerk::new_clerk_from_signer(&signers[0]).compute_aggregate_verification_key().to_concatenation_aggregate_verification_key().to_bytes().unwrap());
        let msg = b"slot-probe".to_vec();
        let slots: Vec<u64> = signers.iter().map(|s| s.create_single_signature(&msg).map(|x| x.signer_index).unwrap_or(u64::MAX)).collect();
        match &reference {
            None => reference = Some((avk, slots)),
            Some((a, sl)) => {
                if *a != avk || sl.iter().zip(slots.iter()).any(|(x, y)| *x != u64::MAX && *y != u64::MAX && x != y) {
                    bad += 1;
                }
            }
        }
    }
    let mut out = vec![if bad == 0 { "agree over 6 orders".to_string() } else { format!("VIOLATED {} of 5 orders differ from the first", bad) }];
    // a retried (rejected) registration must not change what the registration closes to
    {
        let close = |hist: &[usize]| -> (String, u64) {
            let mut key_reg = KeyRegistration::initialize();
            for i in hist.iter() {
                let p = &inits[*i];
                let entry = RegistrationEntry::new(p.get_verification_key_proof_of_possession_for_concatenation(), p.stake).unwrap();
                let _ = key_reg.register_by_entry(&entry);
            }
            let closed = key_reg.close_registration(&params).unwrap();
            let total = closed.total_stake;
            let signer = inits[0].clone().try_create_signer::<D>(&closed).unwrap();
            (format!("{:?}", Clerk::new_clerk_from_signer(&signer).compute_aggregate_verification_key().to_concatenation_aggregate_verification_key().to_bytes().unwrap()), total)
        };
        let plain = close(&[0, 1, 2]);
        let same = [vec![0usize, 0, 1, 2], vec![0, 1, 2, 0], vec![0, 1, 2, 2], vec![0, 1, 0, 2, 1]].iter().all(|h| close(h) == plain);
        out.push(format!("retry_histories={}", if same { "agree" } else { "VIOLATED differ" }));
    }
    // a total stake that does not fit in u64 must not close
    {
        let mut key_reg = KeyRegistration::initialize();
        let mut rng2 = ChaCha20Rng::from_seed([5u8; 32]);
        let mut refused_early = false;
        for stake in [5u64, 9, 1u64 << 63, 1u64 << 63] {
            let p = Initializer::new(params, stake, &mut rng2);
            let entry = RegistrationEntry::new(p.get_verification_key_proof_of_possession_for_concatenation(), p.stake).unwrap();
            refused_early |= key_reg.register_by_entry(&entry).is_err();
        }
        let r = catch(move || match key_reg.close_registration(&params) {
            Ok(c) if !refused_early => format!("VIOLATED closed with total {}", c.total_stake),
            _ => "refused".to_string(),
        });
        out.push(format!("overflowing_total={}", r));
    }
    // stakes at the edges: a zero-stake party, stakes that differ by multiples of 2^32, stakes above 2^63 — the closed registration,
    // the leaves and the entry-for-index lookup must all reflect the registered values
    {
        let avk_of = |stakes: &[u64]| -> (String, Result<String, String>) {
            let mut rng3 = ChaCha20Rng::from_seed([9u8; 32]);
            let p3 = Parameters { m: 3, k: 1, phi_f: 1.0 };
            let mut key_reg = KeyRegistration::initialize();
            let mut ps = Vec::new();
            for st in stakes.iter() {
                let p = Initializer::new(p3, *st, &mut rng3);
                let entry = RegistrationEntry::new(p.get_verification_key_proof_of_possession_for_concatenation(), p.stake).unwrap();
                key_reg.register_by_entry(&entry).unwrap();
                ps.push(p);
            }
            let closed = match key_reg.close_registration(&p3) { Ok(c) => c, Err(e) => return (format!("close failed: {}", e), Err("close failed".to_string())) };
            let signers: Vec<Signer<D>> = ps.into_iter().filter_map(|p| p.try_create_signer(&closed).ok()).collect();
            let clerk = Clerk::new_clerk_from_signer(&signers[0]);
            let avk_full = clerk.compute_aggregate_verification_key();
            let avk_c = avk_full.to_concatenation_aggregate_verification_key();
            // the Merkle root alone (the total stake is serialised next to it and would hide equal roots)
            let avk = serde_json::to_value(&avk_c).map(|v| v["mt_commitment"]["root"].to_string()).unwrap_or_else(|_| format!("{:?}", avk_c.to_bytes().unwrap()));
            // every party with stake signs index 0,1,2 in turn; with phi_f = 1 every honest signature must aggregate and verify
            let msg = b"edge-stakes".to_vec();
            let mut verdicts = Vec::new();
            for (i, s) in signers.iter().enumerate() {
                if let Ok(sig) = s.create_single_signature(&msg) {
                    let one = with_indexes(&sig, &[(i % 3) as u64]);
                    verdicts.push(aggregate_and_verify(&clerk, &[one], &msg, &p3));
                }
            }
            let all_ok = verdicts.iter().all(|v| v == "accepted");
            (avk, if all_ok { Ok("accepted".to_string()) } else { Err(format!("{:?}", verdicts)) })
        };
        let mut bad = Vec::new();
        for stakes in [vec![0u64, 3, 5], vec![3, 0, 5, 8], vec![5, (1u64 << 33) + 7, 1u64 << 34], vec![(1u64 << 63) + 5, 9]] {
            if let (_, Err(e)) = avk_of(&stakes) { bad.push(format!("honest signatures under stakes {:?}: {}", stakes, e.chars().take(60).collect::<String>())); }
        }
        for (a, b) in [(vec![5u64, (1u64 << 33) + 7, 1u64 << 34], vec![(1u64 << 32) + 5, (1u64 << 32) + 7, 1u64 << 34]), (vec![(1u64 << 63) + 5, 9], vec![(1u64 << 63) + 6, 9])] {
            if avk_of(&a).0 == avk_of(&b).0 { bad.push(format!("stakes {:?} and {:?} give the same aggregate key", a, b)); }
        }
        out.push(format!("edge_stakes={}", if bad.is_empty() { "ok".to_string() } else { format!("VIOLATED {}", bad.join("; ")) }));
    }
    // the key order must tell a key from its negation (same x coordinate, only the sign flag of the encoding differs)
    {
        use mithril_stm::VerificationKeyForConcatenation as Vk;
        let a = inits[0].get_verification_key_proof_of_possession_for_concatenation().vk;
        let mut bytes = a.to_bytes();
        bytes[0] ^= 0x20;
        match Vk::from_bytes(&bytes) {
            Ok(neg) => {
                let o1 = a.cmp(&neg);
                let o2 = neg.cmp(&a);
                let ok = a != neg && o1 != std::cmp::Ordering::Equal && o1 == o2.reverse();
                out.push(format!("key_order_negated_key={}", if ok { "distinguished".to_string() } else { format!("VIOLATED {:?}/{:?}", o1, o2) }));
            }
            Err(_) => out.push("key_order_negated_key=scenario-not-built".to_string()),
        }
    }
    out.join(" ")
}

/// quorum selection under repeated / re-submitted / corrupted copies (phi_f = 1: every index wins, so every index
/// subset of an honest signature is a valid signature)
fn clerk_battery() -> String {
    let params = Parameters { m: 5, k: 5, phi_f: 1.0 };
    let (signers, clerk) = setup(params, &[10, 20]);
    let msg = b"verif-replay".to_vec();
    let a = signers[0].create_single_signature(&msg).unwrap();
    let b = signers[1].create_single_signature(&msg).unwrap();
    let mut out = Vec::new();
    let mut expect = |name: &str, sigs: &[SingleSignature], p: &Parameters, want_ok: bool| {
        let (_, c) = setup(*p, &[10, 20]);
        let r = aggregate_and_verify(&c, sigs, &msg, p);
        let ok = r == "accepted";
        out.push(format!("{}={}{}", name, if ok == want_ok { "" } else { "VIOLATED " }, r.chars().take(28).collect::<String>()));
    };
    let k4 = Parameters { k: 4, ..params };
    expect("A", &[a.clone()], &params, true);
    expect("A_A", &[a.clone(), a.clone()], &params, true);
    expect("A1234_A0_A0", &[with_indexes(&a, &[1, 2, 3, 4]), with_indexes(&a, &[0]), with_indexes(&a, &[0])], &params, true);
    expect("A23_A012_k4", &[with_indexes(&a, &[2, 3]), with_indexes(&a, &[0, 1, 2])], &k4, true);
    expect("A_then_corrupted_copy", &[a.clone(), with_indexes(&a, &[7])], &params, true);
    expect("corrupted_copy_then_A", &[with_indexes(&a, &[7]), a.clone()], &params, true);
    expect("A0123_plus_corrupted_copy_is_not_a_quorum", &[with_indexes(&a, &[0, 1, 2, 3]), with_indexes(&a, &[7])], &params, false);
    expect("A01_B1234_overlap", &[with_indexes(&a, &[0, 1]), with_indexes(&b, &[1, 2, 3, 4])], &params, true);
    expect("A0_0_B1234", &[with_indexes(&a, &[0, 0]), with_indexes(&b, &[1, 2, 3, 4])], &params, true);
    expect("B11_A01234", &[with_indexes(&b, &[1, 1]), a.clone()], &params, true);
    // junk next to a quorum: a signature naming a signer slot that is not registered, and a signature of another message
    let with_slot = |s: &SingleSignature, slot: u64| { let mut c = s.clone(); c.signer_index = slot; c };
    let other_msg = signers[1].create_single_signature(b"another message").unwrap();
    expect("A_then_unregistered_slot", &[a.clone(), with_slot(&b, 999)], &params, true);
    expect("unregistered_slot_then_A", &[with_slot(&b, 999), a.clone()], &params, true);
    expect("A_then_other_message", &[a.clone(), other_msg.clone()], &params, true);
    expect("other_message_then_A", &[other_msg.clone(), a.clone()], &params, true);
    expect("A_twice_B_twice", &[a.clone(), b.clone(), a.clone(), b.clone()], &params, true);
    expect("A_A_A_with_two_parties", &[a.clone(), a.clone(), a.clone()], &params, true);
    // more entries than registered parties: the signatures that complete the quorum come last
    let other_msg_a = signers[0].create_single_signature(b"another message").unwrap();
    expect("junk_from_every_signer_then_A", &[other_msg_a.clone(), other_msg.clone(), a.clone()], &params, true);
    expect("A01_A01_A01_B23_k4", &[with_indexes(&a, &[0, 1]), with_indexes(&a, &[0, 1]), with_indexes(&a, &[0, 1]), with_indexes(&b, &[2, 3])], &k4, true);
    let _ = clerk;
    out.join(" ")
}

fn main() {
    let a: Vec<String> = std::env::args().skip(1).collect();
    let out = match a.first().map(|s| s.as_str()) {
        Some("index_at_m") => index_at_m(),
        Some("duplicate") => duplicate(),
        Some("pop_halves") => pop_halves(),
        Some("lost_index") => lost_index(),
        Some("after_quorum") => after_quorum(),
        Some("merkle_full_set") => merkle_full_set(),
        Some("batch_same_message") => batch_same_message(),
        Some("merkle_forge") => merkle_forge(&a[1]),
        Some("sample_points") => {
            let params = Parameters { m: 4, k: 2, phi_f: 1.0 };
            let (signers, _clerk) = setup(params, &[10, 20]);
            let sig = signers[0].create_single_signature(b"x").unwrap();
            let v = serde_json::to_value(&sig).unwrap();
            let hexs = |a: &serde_json::Value| a.as_array().unwrap().iter().map(|b| format!("{:02x}", b.as_u64().unwrap())).collect::<String>();
            let vk = serde_json::to_value(signers[0].get_bls_verification_key()).unwrap();
            format!("{} {}", hexs(&vk), hexs(&v["sigma"]))
        }
        Some("clerk_battery") => clerk_battery(),
        Some("avk_orders") => avk_orders(),
        Some("merkle_index_overflow") => merkle_index_overflow(),
        Some("merkle_empty_proof") => merkle_empty_proof(),
        Some("merkle_battery") => merkle_battery(),
        Some("decode") => decode(&a[1], &a[2]),
        Some("sign_vs_verify") => sign_vs_verify(),
        Some("cross_dup") => cross_dup(),
        Some("uncommitted_leaf") => uncommitted_leaf(),
        Some("batch_swap") => batch_swap(),
        _ => "unknown-query".to_string(),
    };
    println!("{}", out);
}


/// Replay of a solver counterexample of the Merkle soundness obligations through the public aggregate verifier.
/// spec = {"n": tree size, "claims": [{"L": position} | {"F": j}], "indices": [..], "values": [expr]}
/// expr = {"L": i} | {"F": j} | "P" (digests of a committed leaf / forged leaf / the padding byte) | {"h2": [expr, expr]} | {"J": t}
/// A forged leaf F j is (verification key of the party at position j mod n, stake 1_000_000 + j): not committed, but the
/// party's own signature stays valid under it, so everything but the membership check passes.
fn merkle_forge(spec: &str) -> String {
    use blake2::{Blake2b, Digest, digest::consts::U32};
    type H = Blake2b<U32>;
    let spec: serde_json::Value = serde_json::from_str(spec).unwrap();
    let n = spec["n"].as_u64().unwrap() as usize;
    let params = Parameters { m: 8, k: 1, phi_f: 1.0 };
    let stakes: Vec<u64> = (0..n as u64).map(|i| 10 + i).collect();
    let (signers, clerk) = setup(params, &stakes);
    let msg = b"verif-replay".to_vec();
    let avk = clerk.compute_aggregate_verification_key();
    // tree position -> (entry json of the party's honest one-signature aggregate)
    let mut by_pos: Vec<Option<serde_json::Value>> = vec![None; n];
    let mut base = serde_json::Value::Null;
    for s in signers.iter() {
        let sig = with_indexes(&s.create_single_signature(&msg).unwrap(), &[0]);
        let v = agg_json(&clerk, &[sig], &msg);
        let pos = v["batch_proof"]["indices"][0].as_u64().unwrap() as usize;
        by_pos[pos] = Some(v["signatures"][0].clone());
        base = v;
    }
    let leaf_bytes = |entry: &serde_json::Value, stake: u64| -> Vec<u8> {
        let mut b: Vec<u8> = entry[1][0].as_array().unwrap().iter().map(|x| x.as_u64().unwrap() as u8).collect();
        b.extend_from_slice(&stake.to_be_bytes());
        b
    };
    let entry_of = |c: &serde_json::Value, t: usize| -> (serde_json::Value, Vec<u8>) {
        let (pos, stake) = if let Some(i) = c.get("L") {
            let i = i.as_u64().unwrap() as usize;
            (i, by_pos[i].as_ref().unwrap()[1][1].as_u64().unwrap())
        } else {
            let j = c["F"].as_u64().unwrap();
            ((j as usize) % n, 1_000_000 + j)
        };
        let mut e = by_pos[pos].clone().unwrap();
        e[0]["indexes"] = serde_json::json!([t as u64]);
        e[1][1] = serde_json::json!(stake);
        let lb = leaf_bytes(&e, stake);
        (e, lb)
    };
    fn eval(e: &serde_json::Value, leaf: &dyn Fn(&serde_json::Value) -> Vec<u8>) -> Vec<u8> {
        if e == "P" {
            return H::digest([0u8]).to_vec();
        }
        if let Some(p) = e.get("h2") {
            return H::new().chain_update(eval(&p[0], leaf)).chain_update(eval(&p[1], leaf)).finalize().to_vec();
        }
        if let Some(t) = e.get("J") {
            return vec![0xA0u8.wrapping_add(t.as_u64().unwrap() as u8); 32];
        }
        H::digest(leaf(e)).to_vec()
    }
    let leaf_of = |e: &serde_json::Value| -> Vec<u8> { entry_of(e, 0).1 };
    // control: the root recomputed with this file's hashing must be the aggregate key's root (else the replay itself is wrong)
    let np2 = n.next_power_of_two();
    let mut level: Vec<Vec<u8>> = (0..np2).map(|i| if i < n { H::digest(leaf_of(&serde_json::json!({"L": i}))).to_vec() } else { H::digest([0u8]).to_vec() }).collect();
    while level.len() > 1 {
        level = level.chunks(2).map(|p| H::new().chain_update(&p[0]).chain_update(&p[1]).finalize().to_vec()).collect();
    }
    let avk_json = serde_json::to_value(avk.to_concatenation_aggregate_verification_key()).unwrap();
    let root_bytes: Vec<u8> = level[0].clone();
    let control = avk_json.to_string().contains(&serde_json::to_string(&root_bytes).unwrap().trim_matches(|c| c == '[' || c == ']').to_string());
    let mut j = base.clone();
    let claims = spec["claims"].as_array().unwrap();
    j["signatures"] = serde_json::Value::Array(claims.iter().enumerate().map(|(t, c)| entry_of(c, t).0).collect());
    j["batch_proof"]["indices"] = spec["indices"].clone();
    j["batch_proof"]["values"] = serde_json::Value::Array(spec["values"].as_array().unwrap().iter().map(|e| serde_json::json!(eval(e, &leaf_of))).collect());
    let r = match serde_json::from_value::<mithril_stm::AggregateSignature<D>>(j) {
        Ok(f) => catch(move || verdict(f.verify(&msg, &avk, &params, None, None))),
        Err(e) => format!("rejected (decode: {})", e),
    };
    format!("control={} forged={}", if control { "ok" } else { "MISMATCH" }, r.chars().take(120).collect::<String>())
}


/// proofs of possession with one genuine and one foreign half, and duplicate keys: registration must refuse them
fn pop_halves() -> String {
    use mithril_stm::VerificationKeyProofOfPossessionForConcatenation as VkPop;
    let params = Parameters { m: 4, k: 2, phi_f: 1.0 };
    let mut rng = ChaCha20Rng::from_seed([11u8; 32]);
    let a = Initializer::new(params, 10, &mut rng);
    let b = Initializer::new(params, 20, &mut rng);
    let ab = a.get_verification_key_proof_of_possession_for_concatenation().to_bytes();
    let bb = b.get_verification_key_proof_of_possession_for_concatenation().to_bytes();
    // layout: vk (96) | k1 (48) | k2 (48)
    let splice = |k1: &[u8], k2: &[u8]| -> Vec<u8> {
        let mut v = ab[..96].to_vec();
        v.extend_from_slice(k1);
        v.extend_from_slice(k2);
        v
    };
    let mut out = Vec::new();
    let mut case = |name: &str, bytes: Vec<u8>, want_ok: bool| {
        let got = match VkPop::from_bytes(&bytes) {
            Ok(vkpop) => {
                let mut reg = KeyRegistration::initialize();
                catch(move || if reg.register(10, &vkpop).is_ok() { "accepted".to_string() } else { "rejected".to_string() })
            }
            Err(_) => "rejected (decode)".to_string(),
        };
        let ok = got.starts_with("accepted");
        out.push(format!("{}={}{}", name, if ok == want_ok { "" } else { "VIOLATED " }, got));
    };
    case("genuine", splice(&ab[96..144], &ab[144..192]), true);
    case("k1_of_other_key", splice(&bb[96..144], &ab[144..192]), false);
    case("k2_of_other_key", splice(&ab[96..144], &bb[144..192]), false);
    case("both_of_other_key", splice(&bb[96..144], &bb[144..192]), false);
    {
        let vkpop = a.get_verification_key_proof_of_possession_for_concatenation();
        let mut reg = KeyRegistration::initialize();
        let first = reg.register(10, &vkpop).is_ok();
        let second = reg.register(99, &vkpop).is_ok();
        out.push(format!("same_key_twice={}{}/{}", if first && !second { "" } else { "VIOLATED " }, first, second));
    }
    out.join(" ")
}


/// an otherwise honest one-signature aggregate whose index list is replaced by an index the signer LOST: the aggregate verifier must
/// evaluate the lottery with the signer's registered stake over the total stake and refuse it
fn lost_index() -> String {
    let params = Parameters { m: 200, k: 1, phi_f: 0.2 };
    let (signers, clerk) = setup(params, &[1, 1, 1, 1, 1, 1, 1, 1, 1, 1]);
    let avk = clerk.compute_aggregate_verification_key();
    for c in 0u64..2000 {
        let msg = c.to_le_bytes().to_vec();
        for s in signers.iter() {
            let sig = match s.create_single_signature(&msg) { Ok(x) => x, Err(_) => continue };
            let won = sig.get_concatenation_signature_indices();
            if won.is_empty() { continue; }
            let lost: Vec<u64> = (0..params.m).filter(|i| !won.contains(i)).collect();
            let honest = with_indexes(&sig, &won[..1]);
            let mut v = agg_json(&clerk, &[honest], &msg);
            let control: mithril_stm::AggregateSignature<D> = serde_json::from_value(v.clone()).unwrap();
            let control_ok = control.verify(&msg, &avk, &params, None, None).is_ok();
            let mut accepted = 0;
            for i in lost.iter().take(40) {
                v["signatures"][0][0]["indexes"] = serde_json::json!([i]);
                let forged: mithril_stm::AggregateSignature<D> = serde_json::from_value(v.clone()).unwrap();
                let (m2, a2) = (msg.clone(), avk.clone());
                if catch(move || verdict(forged.verify(&m2, &a2, &params, None, None))).starts_with("accepted") { accepted += 1; }
            }
            return format!("control={} lost_indices_accepted={}{}/40", if control_ok { "accepted" } else { "VIOLATED rejected" }, if accepted > 0 { "VIOLATED " } else { "" }, accepted);
        }
    }
    "scenario-not-built".to_string()
}


/// the verifier's quorum (k = 2) is reached before the end of the signature list; the LAST entry then carries an index >= m,
/// an index already used by an earlier entry, or an unsorted list hiding an out-of-range index: every variant must be refused
fn after_quorum() -> String {
    let wide = Parameters { m: 6, k: 4, phi_f: 1.0 };
    let verify_params = Parameters { k: 2, ..wide };
    let (signers, clerk) = setup(wide, &[10, 10]);
    let msg = b"verif-replay".to_vec();
    let a = with_indexes(&signers[0].create_single_signature(&msg).unwrap(), &[0, 1]);
    let b = with_indexes(&signers[1].create_single_signature(&msg).unwrap(), &[2, 3]);
    let base = agg_json(&clerk, &[a, b], &msg);
    let avk = clerk.compute_aggregate_verification_key();
    let n = base["signatures"].as_array().unwrap().len();
    if n != 2 { return "scenario-not-built".to_string(); }
    let first: Vec<u64> = base["signatures"][0][0]["indexes"].as_array().unwrap().iter().map(|x| x.as_u64().unwrap()).collect();
    let last: Vec<u64> = base["signatures"][1][0]["indexes"].as_array().unwrap().iter().map(|x| x.as_u64().unwrap()).collect();
    let mut out = Vec::new();
    let mut case = |name: &str, idx: Vec<u64>, which: usize, want_ok: bool| {
        let mut v = base.clone();
        v["signatures"][which][0]["indexes"] = serde_json::json!(idx);
        let r = match serde_json::from_value::<mithril_stm::AggregateSignature<D>>(v) {
            Ok(f) => { let (m2, a2) = (msg.clone(), avk.clone()); catch(move || verdict(f.verify(&m2, &a2, &verify_params, None, None))) }
            Err(_) => "rejected (decode)".to_string(),
        };
        let ok = r.starts_with("accepted");
        out.push(format!("{}={}{}", name, if ok == want_ok { "" } else { "VIOLATED " }, r.chars().take(20).collect::<String>()));
    };
    case("honest_wider_than_k", last.clone(), 1, true);
    case("last_entry_index_beyond_m", [last.clone(), vec![wide.m + 3]].concat(), 1, false);
    case("last_entry_repeats_first_entry_index", [last.clone(), vec![first[0]]].concat(), 1, false);
    case("out_of_range_index_before_the_last_index", [vec![wide.m + 1000], last.clone()].concat(), 1, false);
    case("first_entry_out_of_range_index_not_last", [vec![wide.m + 7], first.clone()].concat(), 0, false);
    out.join(" ")
}

/// a batch whose members share message and aggregate key: a forged member (an honest aggregate of ANOTHER message claimed for this
/// one) next to an honest one must make the batch fail, wherever it stands
fn batch_same_message() -> String {
    let params = Parameters { m: 6, k: 2, phi_f: 1.0 };
    let (signers, clerk) = setup(params, &[10, 10]);
    let msg = b"verif-replay".to_vec();
    let other = b"another message".to_vec();
    let avk = clerk.compute_aggregate_verification_key();
    let mk = |m: &[u8]| -> mithril_stm::AggregateSignature<D> {
        let a = with_indexes(&signers[0].create_single_signature(m).unwrap(), &[0, 1]);
        serde_json::from_value(agg_json(&clerk, &[a], m)).unwrap()
    };
    let honest = mk(&msg);
    let forged = mk(&other);
    let alone = verdict(forged.verify(&msg, &avk, &params, None, None));
    let batch = |members: Vec<mithril_stm::AggregateSignature<D>>| -> String {
        let n = members.len();
        verdict(mithril_stm::AggregateSignature::<D>::batch_verify(&members, &vec![msg.clone(); n], &vec![avk.clone(); n], &vec![params; n], &vec![None; n], &vec![None; n]))
    };
    let mut out = vec![format!("forged_alone={}", if alone.starts_with("accepted") { "VIOLATED accepted" } else { "rejected" })];
    for (name, members) in [("honest_honest", vec![honest.clone(), honest.clone()]), ("forged_honest", vec![forged.clone(), honest.clone()]),
                            ("honest_forged", vec![honest.clone(), forged.clone()]), ("honest_forged_honest", vec![honest.clone(), forged.clone(), honest.clone()])] {
        let r = batch(members);
        let ok = r.starts_with("accepted");
        let want = name == "honest_honest";
        out.push(format!("{}={}{}", name, if ok == want { "" } else { "VIOLATED " }, r.chars().take(20).collect::<String>()));
    }
    out.join(" ")
}


/// honest aggregates in which EVERY registered party (resp. every party but one) signs, for registrations of 2..=9 parties:
/// the generated batch proof over all leaves of a tree with padding positions must verify
fn merkle_full_set() -> String {
    let mut bad = Vec::new();
    let mut tried = 0;
    for n in 2u64..=9 {
        for skip in [None, Some(0usize), Some((n - 1) as usize)] {
            let params = Parameters { m: n, k: n - if skip.is_some() { 1 } else { 0 }, phi_f: 1.0 };
            let stakes: Vec<u64> = (0..n).map(|i| 10 + i).collect();
            let (signers, clerk) = setup(params, &stakes);
            let msg = b"verif-replay".to_vec();
            let mut sigs = Vec::new();
            let mut next = 0u64;
            for (i, s) in signers.iter().enumerate() {
                if Some(i) == skip { continue; }
                sigs.push(with_indexes(&s.create_single_signature(&msg).unwrap(), &[next]));
                next += 1;
            }
            tried += 1;
            let r = aggregate_and_verify(&clerk, &sigs, &msg, &params);
            if r != "accepted" { bad.push(format!("n={} skip={:?}: {}", n, skip, r.chars().take(40).collect::<String>())); }
        }
    }
    if bad.is_empty() { format!("all {} honest full / all-but-one aggregates verify", tried) } else { format!("VIOLATED {}", bad.join("; ")) }
}
