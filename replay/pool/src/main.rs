#![allow(static_mut_refs)]
//! Native confirmation of a C18 counterexample on the real `mithril-resource-pool` crate.
//! usage: verif-replay-pool <idle> <size> <op> <op> ...     ops: A0 A1 B0 B1 R F0..F3 X
//! The operation sequence is the one of the failing Kani harness; the solver-chosen parameters (initial
//! generation, tag of raw give-backs, give-back path) are searched over a small grid around the
//! generation values in play.  Prints `VIOLATED <what> <assignment>` for the first assignment that breaks
//! the invariant natively, `HOLDS` otherwise.
use mithril_resource_pool::{Reset, ResourcePool, ResourcePoolItem};
use std::time::Duration;

struct Res {
    generation: u64,
}
// preemption inside a give-back: when armed, `reset` (called by give_back_resource before it takes the pool's locks)
// runs one complete refresh of another user, as the Kani harness does
static mut PRE_POOL: *const ResourcePool<Res> = std::ptr::null();
// Some((kind, value)): kind 0 = refresh with `value` refills, kind 1 = raw give-back of a resource of generation `value`
static mut PRE_ARMED: Option<(u8, u64)> = None;
static mut PRE_THREAD: Option<std::thread::JoinHandle<()>> = None;
static mut PRE_THREADED: bool = false;

impl Reset for Res {
    fn reset(&mut self) -> mithril_resource_pool_std_result::R {
        unsafe {
            if let Some((kind, value)) = PRE_ARMED.take() {
                if !PRE_POOL.is_null() {
                    // the other user runs on its own thread: if the pool's lock is held around this reset (bulk reset), it simply
                    // blocks until the operation is over — no interleaving — instead of dead-locking this thread
                    let pool: &'static ResourcePool<Res> = std::mem::transmute(&*PRE_POOL);
                    if !PRE_THREADED {
                        // give-back paths reset the resource before taking the pool's lock: the other user's operation runs inline
                        if kind == 0 {
                            let dn = pool.discriminant().unwrap() + 1;
                            pool.set_discriminant(dn).unwrap();
                            pool.clear();
                            for _ in 0..value {
                                pool.give_back_resource(Res { generation: dn }, dn).unwrap();
                            }
                        } else {
                            pool.give_back_resource(Res { generation: value }, value).unwrap();
                        }
                        return Ok(());
                    }
                    let done = std::sync::Arc::new(std::sync::atomic::AtomicBool::new(false));
                    let done2 = done.clone();
                    let h = std::thread::spawn(move || {
                        if kind == 0 {
                            let dn = pool.discriminant().unwrap() + 1;
                            pool.set_discriminant(dn).unwrap();
                            pool.clear();
                            for _ in 0..value {
                                pool.give_back_resource(Res { generation: dn }, dn).unwrap();
                            }
                        } else {
                            pool.give_back_resource(Res { generation: value }, value).unwrap();
                        }
                        done2.store(true, std::sync::atomic::Ordering::SeqCst);
                    });
                    for _ in 0..10 {
                        if done.load(std::sync::atomic::Ordering::SeqCst) { break; }
                        std::thread::sleep(Duration::from_micros(200));
                    }
                    PRE_THREAD = Some(h);
                }
            }
        }
        Ok(())
    }
}
mod mithril_resource_pool_std_result {
    pub type R = Result<(), anyhow::Error>;
}

const T: Duration = Duration::from_millis(1);

fn run(idle: usize, size: usize, ops: &[String], g0: u64, raw: &[u64], paths: &[bool]) -> Option<String> {
    let mut v = Vec::with_capacity(size + 2);
    for _ in 0..idle {
        v.push(Res { generation: g0 });
    }
    let pool = ResourcePool::new(size, v);
    pool.set_discriminant(g0).unwrap();
    unsafe {
        PRE_POOL = &pool as *const _;
        PRE_ARMED = None;
    }
    let mut held: [Option<ResourcePoolItem<'_, Res>>; 2] = [None, None];
    let mut ri = 0;
    let mut pi = 0;
    let mut give_back = |pool: &ResourcePool<Res>, h: &mut Option<ResourcePoolItem<'_, Res>>, pi: &mut usize| {
        if let Some(item) = h.take() {
            let explicit = paths[*pi % paths.len()];
            *pi += 1;
            if explicit {
                // SAFETY of lifetimes: item borrows pool
                pool.give_back_resource_pool_item(unsafe { std::mem::transmute(item) }).unwrap();
            } else {
                drop(item);
            }
        }
    };
    for op in ops {
        // "<op>!F<n>" = during the reset inside <op>, another user refreshes with n refills; "<op>!R<k>" = another user gives back
        // a raw resource of generation g0 + k - 1 (k = 0..3); "<op>!" = "<op>!F0"
        let (opn, pre) = match op.split_once('!') {
            Some((o, "")) => (o, Some((0u8, 0u64))),
            Some((o, p)) if p.starts_with('F') => (o, Some((0u8, p[1..].parse::<u64>().unwrap()))),
            Some((o, p)) if p.starts_with('R') => (o, Some((1u8, (g0 + p[1..].parse::<u64>().unwrap()).saturating_sub(1)))),
            _ => (op.as_str(), None),
        };
        if pre.is_some() {
            unsafe {
                PRE_ARMED = pre;
                // the bulk reset may hold the pool's lock around Reset::reset: there the other user runs on its own thread
                PRE_THREADED = opn == "X";
            }
        }
        match opn {
            "A0" | "A1" => {
                let u = if opn == "A0" { 0 } else { 1 };
                if held[u].is_none() && pool.count().unwrap() > 0 {
                    let item = pool.acquire_resource(T).unwrap();
                    let d = pool.discriminant().unwrap();
                    if item.discriminant() != d {
                        return Some("item-tag-not-current".into());
                    }
                    if item.generation != d {
                        return Some("stale-resource-readmitted".into());
                    }
                    held[u] = Some(unsafe { std::mem::transmute(item) });
                }
            }
            "B0" => give_back(&pool, &mut held[0], &mut pi),
            "B1" => give_back(&pool, &mut held[1], &mut pi),
            "R" => {
                let g = raw[ri % raw.len()];
                ri += 1;
                pool.give_back_resource(Res { generation: g }, g).unwrap();
            }
            "F0" | "F1" | "F2" | "F3" => {
                let n: usize = opn[1..].parse().unwrap();
                let dn = pool.discriminant().unwrap() + 1;
                pool.set_discriminant(dn).unwrap();
                pool.clear();
                for _ in 0..n {
                    pool.give_back_resource(Res { generation: dn }, dn).unwrap();
                }
            }
            "X" => pool.reset_available_resources().unwrap(),
            _ => panic!("unknown op"),
        }
        unsafe {
            PRE_ARMED = None;
            if let Some(h) = PRE_THREAD.take() {
                let _ = h.join();
            }
        }
        if pool.count().unwrap() > pool.size() {
            return Some("pool-exceeds-size".into());
        }
    }
    give_back(&pool, &mut held[0], &mut pi);
    give_back(&pool, &mut held[1], &mut pi);
    if pool.count().unwrap() > pool.size() {
        return Some("pool-exceeds-size".into());
    }
    let d = pool.discriminant().unwrap();
    while pool.count().unwrap() > 0 {
        let item = pool.acquire_resource(T).unwrap();
        if item.discriminant() != d {
            return Some("item-tag-not-current".into());
        }
        if item.generation != d {
            return Some("stale-resource-readmitted".into());
        }
        std::mem::forget(item);
    }
    None
}

fn search(idle: usize, size: usize, ops: &[String]) -> Option<String> {
    let has_raw = ops.iter().any(|o| o.as_str() == "R" || o.starts_with("R!"));
    let n_raw = ops.iter().filter(|o| o.as_str() == "R" || o.starts_with("R!")).count().max(1);
    // give-back paths (explicit vs drop) only matter for items that are acquired at some point
    let n_acq = ops.iter().filter(|o| o.starts_with('A')).count().min(4);
    let n_masks: u32 = 1 << n_acq;
    for g0 in [5u64, 0] {
        let cands: Vec<u64> = if has_raw { (g0.saturating_sub(1)..=g0 + 4).collect() } else { vec![g0] };
        let mut idx = vec![0usize; n_raw];
        loop {
            let raw: Vec<u64> = idx.iter().map(|i| cands[*i]).collect();
            for pm in 0..n_masks {
                let paths: Vec<bool> = (0..4).map(|b| pm & (1 << b) != 0).collect();
                if let Some(what) = run(idle, size, ops, g0, &raw, &paths) {
                    return Some(format!("{} ops={:?} g0={} raw={:?} explicit_give_back={:?}", what, ops, g0, raw, paths));
                }
            }
            let mut k = 0;
            loop {
                if k == n_raw {
                    break;
                }
                idx[k] += 1;
                if idx[k] < cands.len() {
                    break;
                }
                idx[k] = 0;
                k += 1;
            }
            if k == n_raw {
                break;
            }
        }
    }
    None
}

/// usage: verif-replay-pool seq <idle> <size> <op>...          one given sequence
///        verif-replay-pool all <idle> <size> <steps> <users>  every sequence of <= steps ops (the shape of a Kani history harness)
fn main() {
    let a: Vec<String> = std::env::args().skip(1).collect();
    let idle: usize = a[1].parse().unwrap();
    let size: usize = a[2].parse().unwrap();
    if a[0] == "seq" {
        match search(idle, size, &a[3..]) {
            Some(w) => println!("VIOLATED {}", w),
            None => println!("HOLDS"),
        }
        return;
    }
    let steps: usize = a[3].parse().unwrap();
    let users: usize = a[4].parse().unwrap();
    let mut alphabet: Vec<String> = vec!["A0".into(), "B0".into(), "R".into(), "X".into()];
    for j in 0..=size {
        alphabet.push(format!("F{}", j));
    }
    if users >= 2 {
        alphabet.push("A1".into());
        alphabet.push("B1".into());
    }
    if a.len() > 5 && a[5] == "preempt" {
        for base in ["B0", "R", "X"] {
            for j in 0..=size.min(2) {
                alphabet.push(format!("{}!F{}", base, j));
            }
            for k in 0..4 {
                alphabet.push(format!("{}!R{}", base, k));
            }
        }
    }
    let mut found = std::collections::BTreeMap::new();
    let mut count = 0u64;
    for len in 1..=steps {
        let mut idx = vec![0usize; len];
        loop {
            let ops: Vec<String> = idx.iter().map(|i| alphabet[*i].clone()).collect();
            count += 1;
            if let Some(w) = search(idle, size, &ops) {
                let class = w.split_whitespace().next().unwrap().to_string();
                found.entry(class).or_insert(w);
            }
            let mut k = 0;
            loop {
                if k == len {
                    break;
                }
                idx[k] += 1;
                if idx[k] < alphabet.len() {
                    break;
                }
                idx[k] = 0;
                k += 1;
            }
            if k == len {
                break;
            }
        }
    }
    for (_, w) in found.iter() {
        println!("VIOLATED {}", w);
    }
    println!("SEARCHED {} sequences", count);
    if found.is_empty() {
        println!("HOLDS");
    }
}
