"""Engine A: run Kani (CBMC) harnesses of a harness crate under /verif/kani/<crate> against /repo's working tree.

One `cargo kani` invocation per call (so the crate is compiled once), harnesses verified by `-j N`
worker threads, each under `--harness-timeout`; the whole invocation runs under `ulimit -v` and a wall
cap.  Output is parsed per harness: SUCCESSFUL / FAILED + failed check descriptions / cover results /
timeouts / CBMC errors.  Nothing but an explicit `VERIFICATION:- SUCCESSFUL` counts as discharged.
"""
import os
import re
import shutil
import subprocess
import time

from . import core

NOISE = re.compile(r"^(warning: linker|.*\.rlib|\s+\||\s+=|\s*-->|\d+ \||warning: use of an unstable feature)")


def crate_dir(crate):
    return os.path.join(core.VERIF, "kani", crate)


def target_dir(crate):
    return os.path.join(core.CACHE, "kani-" + crate)


def prepare(crate):
    """Refresh the lock file from /repo so the harness crate resolves exactly the repo's dependency versions."""
    src = os.path.join(core.REPO, "Cargo.lock")
    dst = os.path.join(crate_dir(crate), "Cargo.lock")
    os.makedirs(core.CACHE, exist_ok=True)
    shutil.copyfile(src, dst)
    # git-ignored scratch modules must exist for the crate to build
    for scratch in ("pb.rs", "generated.rs"):
        sp = os.path.join(crate_dir(crate), "src", scratch)
        if not os.path.exists(sp):
            with open(sp, "w") as f:
                f.write("// scratch (rewritten at check time)\n")


class HarnessResult:
    def __init__(self, name):
        self.name = name
        self.status = "missing"  # success | failed | timeout | error | missing
        self.failed_checks = []  # (description, location)
        self.time_s = 0.0
        self.covers_sat = 0
        self.covers_total = 0
        self.n_checks = 0
        self.raw = []
        self.playback = None  # generated unit test text (concrete playback), if any

    def __repr__(self):
        return "<%s %s %.1fs covers %d/%d %s>" % (self.name, self.status, self.time_s, self.covers_sat, self.covers_total, self.failed_checks[:2])


def _env():
    env = dict(os.environ)
    env["CARGO_NET_OFFLINE"] = "true"
    env.pop("RUSTUP_TOOLCHAIN", None)
    env.pop("RUSTFLAGS", None)
    return env


def run(crate, harnesses, jobs=8, harness_timeout_s=600, wall_cap_s=None, mem_kb=48_000_000, features=None,
        playback=False, logname=None, extra_args=None):
    """Run the given fully-qualified harnesses. Returns (dict name -> HarnessResult, build_ok, raw_log_path)."""
    prepare(crate)
    cdir = crate_dir(crate)
    tdir = target_dir(crate)
    logname = logname or ("kani-%s-%d.log" % (crate, os.getpid()))
    logpath = os.path.join(core.CACHE, logname)
    cmd = ["cargo", "kani", "--target-dir", tdir, "-Z", "stubbing", "-Z", "unstable-options",
           "--harness-timeout", "%ds" % harness_timeout_s, "--exact", "--output-format", "terse"]
    if jobs and jobs > 1 and len(harnesses) > 1:
        cmd += ["-j", str(min(jobs, len(harnesses)))]
    if playback:
        cmd += ["-Z", "concrete-playback", "--concrete-playback=print"]
    if features:
        cmd += ["--features", ",".join(features)]
    for h in harnesses:
        cmd += ["--harness", h]
    if extra_args:
        cmd += extra_args
    if wall_cap_s is None:
        waves = (len(harnesses) + max(1, jobs) - 1) // max(1, jobs)
        wall_cap_s = 240 + waves * (harness_timeout_s + 90)
    shell = "ulimit -v %d; exec timeout -k 10 %d %s" % (mem_kb, wall_cap_s, " ".join("'%s'" % c for c in cmd))
    t0 = time.time()
    with open(logpath, "w") as lf:
        p = subprocess.Popen(["bash", "-c", shell], cwd=cdir, env=_env(), stdout=subprocess.PIPE,
                             stderr=subprocess.STDOUT, text=True, errors="replace")
        lines = []
        for line in p.stdout:
            if NOISE.match(line) or not line.strip():
                continue
            if line.startswith(("aborting path", "Unwinding loop", "Not unwinding")):
                continue
            lf.write(line)
            lines.append(line.rstrip("\n"))
        rc = p.wait()
    wall = time.time() - t0
    results = {h: HarnessResult(h) for h in harnesses}
    build_ok = any("Checking harness" in l for l in lines) or any("Manual Harness Summary" in l for l in lines) \
        or any("Complete - " in l for l in lines)
    _parse(lines, results)
    if rc == 124:
        for r in results.values():
            if r.status == "missing":
                r.status = "timeout"
    return results, build_ok, logpath, wall, rc


_T = re.compile(r"^Thread (\d+): ?(.*)$")


def _parse(lines, results):
    cur = {}  # thread id -> harness name
    block = {}  # thread id -> HarnessResult being filled
    last_thread = None
    single = None
    pb_target = None
    for raw in lines:
        m = _T.match(raw)
        if m:
            tid, line = m.group(1), m.group(2)
        else:
            tid, line = last_thread if last_thread is not None else "0", raw
        mm = re.search(r"Checking harness ([\w:]+)\.\.\.", line)
        if mm:
            name = mm.group(1)
            cur[tid] = name
            last_thread = tid if m else last_thread
            if m is None:
                single = name
                cur["0"] = name
                last_thread = "0"
            continue
        if m:
            last_thread = tid
        name = cur.get(tid) or single
        r = results.get(name) if name else None
        if r is None:
            # summary lines
            mm = re.match(r"Verification failed for - ([\w:]+)", line)
            if mm and mm.group(1) in results and results[mm.group(1)].status == "missing":
                results[mm.group(1)].status = "failed"
            continue
        r.raw.append(line)
        if "VERIFICATION:- SUCCESSFUL" in line:
            r.status = "success"
        elif "VERIFICATION:- FAILED" in line:
            if r.status not in ("timeout", "error"):
                r.status = "failed"
        elif "CBMC timed out" in line or re.search(r"harness.*timed out", line, re.I):
            r.status = "timeout"
        elif "CBMC failed" in line or "Status: ERROR" in line or "std::bad_alloc" in line or "out of memory" in line.lower():
            if r.status != "timeout":
                r.status = "error"
        mm = re.match(r"\s*Failed Checks: (.*)$", line)
        if mm:
            r.failed_checks.append([mm.group(1).strip(), ""])
            continue
        mm = re.match(r"\s*File: (.*)$", line)
        if mm and r.failed_checks and not r.failed_checks[-1][1]:
            r.failed_checks[-1][1] = mm.group(1).strip()
            continue
        mm = re.search(r"\*\* (\d+) of (\d+) cover properties satisfied", line)
        if mm:
            r.covers_sat, r.covers_total = int(mm.group(1)), int(mm.group(2))
        mm = re.search(r"\*\* (\d+) of (\d+) failed", line)
        if mm:
            r.n_checks = int(mm.group(2))
        mm = re.search(r"Verification Time: ([\d.]+)s", line)
        if mm:
            r.time_s = float(mm.group(1))
    # concrete playback blocks: "Concrete playback unit test for `harness`:" followed by ```...```
    text = "\n".join(re.sub(r"^Thread \d+: ?", "", l) for l in lines)
    for mm in re.finditer(r"Concrete playback unit test for `([\w:]+)`:\s*```\s*(.*?)```", text, re.S):
        n = mm.group(1)
        for k, r in results.items():
            if k == n or k.endswith("::" + n) or n.endswith("::" + k.split("::")[-1]):
                r.playback = mm.group(2)
    # summary fallback
    for raw in lines:
        line = re.sub(r"^Thread \d+: ?", "", raw)
        mm = re.match(r"Verification failed for - ([\w:]+)", line)
        if mm and mm.group(1) in results and results[mm.group(1)].status in ("missing",):
            results[mm.group(1)].status = "failed"
