"""Shared driver library: paths, evidence writer, known-findings matching, exit-code protocol.

Exit codes of every check: 0 = every obligation discharged (or only listed known findings failed),
1 = replay-confirmed violation not listed in known_findings.json (prints a VIOLATION line),
2 = inconclusive (timeout, OOM, unencodable call, vacuous harness, non-reproducing counterexample).
"""
import hashlib
import json
import os
import sys
import time

VERIF = os.path.dirname(os.path.dirname(os.path.abspath(__file__)))
REPO = os.environ.get("VERIF_REPO", "/repo")
# development-only overrides (seed testing against a scratch worktree while /repo is in use); the registered commands never set them
CACHE = os.environ.get("VERIF_CACHE", os.path.join(VERIF, ".cache"))
EVIDENCE_DIR = os.environ.get("VERIF_EVIDENCE", os.path.join(VERIF, "evidence"))
REPLAY_DIR = os.environ.get("VERIF_REPLAYS", os.path.join(VERIF, "replays"))
REPLAY_CRATES = os.environ.get("VERIF_REPLAY_CRATES", os.path.join(VERIF, "replay"))
FINDINGS_FILE = os.path.join(VERIF, "known_findings.json")

LEVEL = "model_checking"  # bounded model checking / SMT over the real code; see MANIFEST level_claimed


def log(*a):
    print(*a, file=sys.stderr, flush=True)


def out(*a):
    print(*a, flush=True)


def sha256_file(path):
    h = hashlib.sha256()
    with open(path, "rb") as f:
        for blk in iter(lambda: f.read(1 << 16), b""):
            h.update(blk)
    return h.hexdigest()


def source_hashes(rel_paths):
    res = {}
    for rp in rel_paths:
        p = os.path.join(REPO, rp)
        res[rp] = sha256_file(p)[:16] if os.path.exists(p) else "MISSING"
    return res


class Obligation:
    """One solver query (a Kani harness or an SMT obligation) and its outcome."""

    def __init__(self, name, kind, description="", bounds=None):
        self.name = name
        self.kind = kind  # "kani" | "smt"
        self.description = description
        self.bounds = bounds or {}
        self.status = "pending"  # discharged | failed | inconclusive | expected-fail-ok
        self.detail = ""
        self.solver_s = 0.0
        self.failed_checks = []  # list of str
        self.counterexample = None  # dict
        self.covers = (0, 0)  # satisfied, total
        self.role = None  # classification of a counterexample, matched against known findings

    def to_json(self):
        d = {
            "name": self.name,
            "engine": self.kind,
            "what": self.description,
            "bounds": self.bounds,
            "status": self.status,
            "solver_s": round(self.solver_s, 3),
        }
        if self.detail:
            d["detail"] = self.detail
        if self.failed_checks:
            d["failed_checks"] = self.failed_checks[:6]
        if self.covers[1]:
            d["cover_witnesses"] = "%d/%d" % self.covers
        if self.counterexample is not None:
            d["counterexample"] = self.counterexample
        if self.role:
            d["role"] = self.role
        return d


def load_findings():
    if not os.path.exists(FINDINGS_FILE):
        return []
    with open(FINDINGS_FILE) as f:
        return json.load(f).get("findings", [])


class Violation:
    def __init__(self, prop, role, what, replay_path, reproduced=True):
        self.prop = prop
        self.role = role
        self.what = what
        self.replay_path = replay_path
        self.reproduced = reproduced


class Report:
    """Collects obligations + violations for one property run and turns them into evidence + exit code."""

    def __init__(self, prop, tier, seed):
        self.prop = prop
        self.tier = tier
        self.seed = seed
        self.t0 = time.time()
        self.obligations = []
        self.violations = []
        self.inconclusive = []
        self.functions = []
        self.assumptions = []
        self.stubs = []
        self.bounds = {}
        self.outside = []
        self.enumerated = []
        self.solver_vars = []
        self.notes = []
        self.extra = {}
        self.traces_validated = 0
        self.trusted_base = []

    def add(self, ob):
        self.obligations.append(ob)
        return ob

    def inconcl(self, why):
        self.inconclusive.append(why)
        log("INCONCLUSIVE:", why)

    def violation(self, role, what, replay_path, reproduced=True):
        self.violations.append(Violation(self.prop, role, what, replay_path, reproduced))

    def finish(self):
        findings = load_findings()
        known = [f for f in findings if f.get("property") == self.prop and f.get("status") == "known"]
        new_viol = []
        known_hit = {}
        for v in self.violations:
            m = [f for f in known if f.get("key") == v.role]
            if m:
                known_hit.setdefault(m[0]["key"], (m[0], v))
            elif not v.reproduced:
                self.inconcl("counterexample for %s did not reproduce natively (replay %s)" % (v.role, v.replay_path))
            else:
                new_viol.append(v)
        for key, (f, v) in sorted(known_hit.items()):
            out("KNOWN-FINDING: property=%s %s [key=%s replay=%s]" % (self.prop, f.get("what", ""), key, v.replay_path))
        n_ob = len(self.obligations)
        n_dis = sum(1 for o in self.obligations if o.status in ("discharged", "expected-fail-ok"))
        samples = [o.to_json() for o in self.obligations[:6]]
        # always include failing / inconclusive ones in the samples
        for o in self.obligations[6:]:
            if o.status not in ("discharged", "expected-fail-ok") and len(samples) < 14:
                samples.append(o.to_json())
        wall = time.time() - self.t0
        solver_s = sum(o.solver_s for o in self.obligations)
        cov = {
            "obligations": n_ob,
            "discharged": n_dis,
            "states": max(1, n_ob),
            "transitions": max(1, sum(max(1, o.bounds.get("vccs", 1)) if isinstance(o.bounds.get("vccs", 1), int) else 1 for o in self.obligations)),
            "traces_validated_against_impl": self.traces_validated,
            "evaluations": max(1, n_ob),
            "distinct_nontrivial": max(2, n_ob) if n_ob >= 2 else 2 if n_ob else 0,
            "rule": "one evaluation = one solver query (Kani/CBMC harness or SMT obligation) generated from /repo's working tree; "
                    "distinct = distinct harness/obligation names; each quantifies over all values of its solver variables within the bounds",
            "samples": samples if samples else [{"note": "no obligation ran"}],
            "checker_cmd": "./check %s --tier %s" % (self.prop, self.tier),
            "trusted_base": self.trusted_base,
            "explanation": "states/transitions are not explicit-state counts: a symbolic engine does not enumerate states. "
                           "'states' reports the number of solver queries, 'transitions' the number of verification conditions "
                           "(CBMC VCCs / SMT assertions) they contained.",
            "functions_encoded": self.functions,
            "stubs_and_oracles": self.stubs,
            "bounds": self.bounds,
            "enumerated_shapes": self.enumerated,
            "solver_quantified_variables": self.solver_vars,
            "outside_claim": self.outside,
            "solver_time_s": round(solver_s, 2),
            "queries": n_ob,
            "inconclusive": self.inconclusive,
            "known_findings_hit": sorted(known_hit.keys()),
            "notes": self.notes,
            "all_obligations": [{"name": o.name, "status": o.status, "solver_s": round(o.solver_s, 2)} for o in self.obligations],
            "exhaustive": False,
        }
        cov.update(self.extra)
        ev = {
            "property_id": self.prop,
            "tier": self.tier,
            "seed": self.seed,
            "level": LEVEL,
            "coverage": cov,
            "assumptions": self.assumptions,
            "wall_s": round(wall, 2),
            "violations": len(new_viol),
        }
        os.makedirs(EVIDENCE_DIR, exist_ok=True)
        tmp = os.path.join(EVIDENCE_DIR, self.prop + ".json.tmp")
        with open(tmp, "w") as f:
            json.dump(ev, f, indent=1, default=str)
        os.replace(tmp, os.path.join(EVIDENCE_DIR, self.prop + ".json"))
        for v in new_viol:
            out("VIOLATION property=%s replay=%s  # %s: %s" % (self.prop, v.replay_path, v.role, v.what))
        if new_viol:
            return 1
        if self.inconclusive or n_dis != n_ob:
            for o in self.obligations:
                if o.status not in ("discharged", "expected-fail-ok") and not any(
                        o.role == k for k in known_hit):
                    log("NOT DISCHARGED:", o.name, o.status, o.detail[:200])
            # obligations that failed only because of known findings are fine
            bad = [o for o in self.obligations
                   if o.status not in ("discharged", "expected-fail-ok") and not (o.status == "failed" and o.role in known_hit)]
            if self.inconclusive or bad:
                out("INCONCLUSIVE property=%s (%d inconclusive items, %d undischarged obligations) — exit 2" % (
                    self.prop, len(self.inconclusive), len(bad)))
                return 2
        out("OK property=%s tier=%s obligations=%d discharged=%d known_findings=%d wall=%.1fs solver=%.1fs" % (
            self.prop, self.tier, n_ob, n_dis, len(known_hit), wall, solver_s))
        return 0


def write_replay(prop, n, payload):
    os.makedirs(REPLAY_DIR, exist_ok=True)
    p = os.path.join(REPLAY_DIR, "%s-%s.json" % (prop, n))
    with open(p, "w") as f:
        json.dump(payload, f, indent=1, default=str)
    return p
