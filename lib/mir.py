"""MIR dumps of /repo crates for Engine B: `cargo +nightly rustc -- -Zunpretty=mir` on the current working tree."""
import glob
import os
import shutil
import subprocess
import time

from . import core

CRATES = {
    "mithril-common": ("mithril-common", "mithril_common", []),
    "mithril-stm": ("mithril-stm", "mithril_stm", []),
}


def dump(crate, log=None):
    """Returns (mir_text_path, seconds). Always recompiles the crate itself (dependencies are cached)."""
    rel, libname, extra = CRATES[crate]
    tdir = os.path.join(core.CACHE, "mir-target")
    outdir = os.path.join(core.CACHE, "mir")
    os.makedirs(outdir, exist_ok=True)
    out = os.path.join(outdir, libname + ".mir")
    err = os.path.join(outdir, libname + ".err")
    # force a rebuild of this crate only (the dump is produced as a side effect of compiling it),
    # without touching anything under /repo
    for fp in glob.glob(os.path.join(tdir, "debug", ".fingerprint", crate + "-*")):
        shutil.rmtree(fp, ignore_errors=True)
    env = dict(os.environ)
    env["CARGO_NET_OFFLINE"] = "true"
    env.pop("RUSTFLAGS", None)
    cmd = ["cargo", "+nightly", "rustc", "--offline", "--lib", "--target-dir", tdir] + extra + [
        "--", "-Zunpretty=mir", "-C", "overflow-checks=on", "-C", "debug-assertions=off", "-Awarnings"]
    t0 = time.time()
    tmp = "%s.%d.tmp" % (out, os.getpid())
    err = "%s.%d" % (err, os.getpid()) if os.environ.get("VERIF_PARALLEL") else err
    with open(tmp, "w") as fo, open(err, "w") as fe:
        rc = subprocess.call(cmd, cwd=os.path.join(core.REPO, rel), env=env, stdout=fo, stderr=fe, timeout=1800)
    dt = time.time() - t0
    if rc != 0 or os.path.getsize(tmp) < 1000:
        try:
            os.remove(tmp)
        except OSError:
            pass
        raise RuntimeError("MIR dump of %s failed (rc=%d), see %s" % (crate, rc, err))
    os.replace(tmp, out)
    return out, dt
