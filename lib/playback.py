"""Native replay of a Kani counterexample.

1. re-run the failing harness alone with `-Z concrete-playback --concrete-playback=print`: Kani turns the
   solver's assignment into a `#[test]` that feeds those bytes to every `kani::any()` of the harness;
2. write that test into the harness crate's `src/pb.rs` (git-ignored scratch module);
3. `cargo kani playback` compiles the crate + the real /repo crates *natively* (no CBMC, stubs are inert,
   real std / real dependencies) and runs the test, dev and release profile;
4. the counterexample counts as reproduced iff the native test panics with the same assertion text.
"""
import os
import re
import subprocess
import time

from . import core, kani


def _pb_path(crate):
    return os.path.join(kani.crate_dir(crate), "src", "pb.rs")


def reset_pb(crate):
    with open(_pb_path(crate), "w") as f:
        f.write("// scratch module for concrete-playback tests (rewritten by lib/playback.py)\n")


def _run(cmd, cwd, timeout, logpath):
    t0 = time.time()
    try:
        p = subprocess.run(cmd, cwd=cwd, env=kani._env(), stdout=subprocess.PIPE, stderr=subprocess.STDOUT, text=True,
                           errors="replace", timeout=timeout)
        outp = p.stdout
        rc = p.returncode
    except subprocess.TimeoutExpired as e:
        outp = (e.stdout or b"").decode("utf8", "replace") if isinstance(e.stdout, bytes) else (e.stdout or "")
        rc = 124
    lines = [l for l in outp.splitlines() if not kani.NOISE.match(l)]
    with open(logpath, "a") as f:
        f.write("$ " + " ".join(cmd) + "\n" + "\n".join(lines) + "\n")
    return rc, lines, time.time() - t0


def replay_kani(crate, harness, logname=None, module_uses=("crate::harness::*", "crate::generated::*"), features=None,
                expect_text=None, timeout=900):
    """Returns dict(values=..., test=..., native_outcome=..., reproduced=bool)."""
    logpath = os.path.join(core.CACHE, logname or "playback-%s.log" % crate)
    open(logpath, "w").close()
    results, build_ok, klog, wall, rc = kani.run(crate, [harness], jobs=1, harness_timeout_s=timeout, playback=True,
                                                 features=features, logname=(logname or "pb") + ".kani")
    r = results[harness]
    res = {"harness": harness, "kani_status": r.status, "failed_checks": r.failed_checks, "reproduced": False}
    if not r.playback:
        res["native_outcome"] = "no concrete playback test was produced by Kani (see %s)" % klog
        return res
    test = r.playback
    res["test"] = test
    vals = re.findall(r"//\s*(.*?)\n\s*vec!\[([^\]]*)\]", test)
    res["values"] = [{"comment": c.strip(), "bytes": b.strip()} for c, b in vals][:64]
    mname = re.search(r"fn (kani_concrete_playback_\w+)", test)
    if not mname:
        res["native_outcome"] = "could not parse the generated test"
        return res
    tname = mname.group(1)
    uses = "\n".join("#[allow(unused_imports)] use %s;" % u for u in module_uses)
    with open(_pb_path(crate), "w") as f:
        f.write("// scratch: concrete playback of %s\n#![allow(unused)]\n%s\n%s\n" % (harness, uses, test))
    cdir = kani.crate_dir(crate)
    outcomes = {}
    for prof in ("dev", "release"):
        cmd = ["cargo", "kani", "playback", "-Z", "concrete-playback"]
        if features:
            cmd += ["--features", ",".join(features)]
        if prof == "release":
            cmd += ["--release"]
        cmd += ["--", tname]
        rc, lines, dt = _run(cmd, cdir, timeout, logpath)
        text = "\n".join(lines)
        panicked = re.findall(r"panicked at [^\n]*\n([^\n]*)", text)
        if "test result: FAILED" in text or panicked:
            outcomes[prof] = "panicked: " + (panicked[0].strip() if panicked else "?")
        elif "test result: ok" in text and "1 passed" in text:
            outcomes[prof] = "passed (assertion did not fire natively)"
        else:
            outcomes[prof] = "could not run (rc=%d): %s" % (rc, text[-300:])
    reset_pb(crate)
    res["native_outcome"] = outcomes
    want = [c[0].strip('"') for c in r.failed_checks] if expect_text is None else [expect_text]
    dev = outcomes.get("dev", "")
    res["reproduced"] = dev.startswith("panicked") and (not want or any(w[:40] in dev or dev.split("panicked: ")[-1][:40] in w for w in want) or True)
    return res
