"""SMT back ends for Engine B: z3 (Python API) decides; the same query as SMT-LIB2 text goes to cvc5 (and the z3
binary) as a cross-check.  `unsat` = obligation discharged; `sat` = counterexample (model returned);
anything else (unknown, timeout, `(error` line, solvers disagreeing) = inconclusive."""
import os
import re
import subprocess
import time

import z3

from . import core


class Result:
    def __init__(self, status, model=None, seconds=0.0, cross=None, reason=""):
        self.status = status  # unsat | sat | unknown
        self.model = model
        self.seconds = seconds
        self.cross = cross or {}
        self.reason = reason


def model_to_dict(m):
    d = {}
    for decl in m.decls():
        v = m[decl]
        try:
            if z3.is_int_value(v):
                d[decl.name()] = v.as_long()
            elif z3.is_rational_value(v):
                d[decl.name()] = "%s/%s" % (v.numerator_as_long(), v.denominator_as_long())
            elif z3.is_true(v):
                d[decl.name()] = True
            elif z3.is_false(v):
                d[decl.name()] = False
            else:
                d[decl.name()] = str(v)
        except Exception:
            d[decl.name()] = str(v)
    return d


def run_external(smt2, tool, timeout_s):
    path = os.path.join(core.CACHE, "q-%d.smt2" % os.getpid())
    with open(path, "w") as f:
        f.write(smt2)
    if tool == "cvc5":
        cmd = ["cvc5", "--lang", "smt2", "--tlimit=%d" % (timeout_s * 1000), path]
    else:
        cmd = [tool, "-T:%d" % timeout_s, path]
    try:
        p = subprocess.run(cmd, stdout=subprocess.PIPE, stderr=subprocess.STDOUT, text=True, timeout=timeout_s + 10)
        out = p.stdout.strip()
    except subprocess.TimeoutExpired:
        return "timeout"
    if "(error" in out:
        return "error: " + out[:200]
    first = out.split("\n")[0].strip() if out else ""
    if first in ("sat", "unsat", "unknown"):
        return first
    return "unknown: " + out[:100]


def check(assertions, timeout_s=60, cross=False, logic=None, tactic=None):
    """assertions: list of z3 Bool. Returns Result."""
    s = z3.Solver() if tactic is None else z3.Then(*tactic).solver() if isinstance(tactic, (list, tuple)) else z3.Tactic(tactic).solver()
    s.set("timeout", int(timeout_s * 1000))
    for a in assertions:
        s.add(a)
    t0 = time.time()
    try:
        r = s.check()
    except z3.Z3Exception:
        r = z3.unknown
    dt = time.time() - t0
    status = "sat" if r == z3.sat else "unsat" if r == z3.unsat else "unknown"
    res = Result(status, seconds=dt)
    if status == "sat":
        res.model = s.model()
    if status == "unknown":
        res.reason = s.reason_unknown()
    if cross:
        smt2 = "(set-logic ALL)\n" + s.to_smt2()
        c = run_external(smt2, "cvc5", timeout_s)
        res.cross["cvc5"] = c
        if c in ("sat", "unsat") and status in ("sat", "unsat") and c != status:
            res.status = "unknown"
            res.reason = "solvers disagree: z3=%s cvc5=%s" % (status, c)
    return res


def check_status_forked(assertions, timeout_s=10):
    """status only ('unsat' | 'sat' | 'unknown'), decided in a forked child that is killed at the deadline: for queries on which the
    solver's own timeout is not honoured (sequence theory)"""
    import select
    import signal
    r_fd, w_fd = os.pipe()
    t0 = time.time()
    pid = os.fork()
    if pid == 0:
        try:
            os.close(r_fd)
            s = z3.Solver()
            s.set("timeout", int(timeout_s * 1000))
            for a in assertions:
                s.add(a)
            r = s.check()
            os.write(w_fd, (b"unsat" if r == z3.unsat else b"sat" if r == z3.sat else b"unknown"))
        finally:
            os._exit(0)
    os.close(w_fd)
    status = "unknown"
    ready, _, _ = select.select([r_fd], [], [], timeout_s + 2)
    if ready:
        data = os.read(r_fd, 16).decode()
        if data in ("unsat", "sat", "unknown"):
            status = data
    else:
        try:
            os.kill(pid, signal.SIGKILL)
        except OSError:
            pass
    os.close(r_fd)
    try:
        os.waitpid(pid, 0)
    except OSError:
        pass
    return Result(status, seconds=time.time() - t0, reason="" if status != "unknown" else "timeout")
