#!/bin/bash
# usage: tools_run_seeds.sh <worktree> <ID> <dir with patch<i>.diff> <n>   — development helper: run ./check <ID> against each patch in the worktree
wt=$1; id=$2; dir=$3; n=$4
source /verif/tools_seed_env.sh $wt
cd /verif
for i in $(seq 1 $n); do
  git -C $wt checkout -q -- . ; git -C $wt apply $dir/patch$i.diff || { echo "PATCH $i DOES NOT APPLY"; continue; }
  echo "##### $id seed $i"
  timeout 3000 ./check $id --tier quick 2>&1 | grep -E "VIOLATION|INCONCL|NOT DISCH|^OK|Traceback|Error" | cut -c1-900 | head -8
  git -C $wt checkout -q -- .
done
