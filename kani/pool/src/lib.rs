//! Kani harnesses for C18 (resource pool generations) over the real `mithril-resource-pool` crate.
#![allow(dead_code)]
#![cfg_attr(kani, feature(allocator_api))]

#[cfg(kani)]
mod harness;

#[cfg(kani)]
mod pb;
