// scratch (rewritten at check time)
