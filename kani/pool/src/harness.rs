use mithril_resource_pool::{Reset, ResourcePool, ResourcePoolItem};
use std::time::Duration;

/// A pooled resource that remembers the generation (discriminant) it was built for.
pub struct Res {
    generation: u64,
}
/// `Reset::reset` is the one place where `give_back_resource` runs caller-supplied code *before* it takes the pool's
/// locks (for the real resource it is `MKMap::compress`, which takes time).  The harness uses it as a preemption point:
/// when armed, the solver may let another user run one complete operation there (context bound 1) — a refresh to the
/// next generation or a raw give-back — before the interrupted give-back resumes.
static mut PREEMPT_POOL: *const ResourcePool<Res> = std::ptr::null();
static mut PREEMPT_ARMED: bool = false;
static mut PREEMPTED: bool = false;

impl Reset for Res {
    fn reset(&mut self) -> anyhow::Result<()> {
        unsafe {
            if PREEMPT_ARMED && !PREEMPT_POOL.is_null() && kani::any() {
                PREEMPT_ARMED = false;
                PREEMPTED = true;
                let pool = &*PREEMPT_POOL;
                if kani::any() {
                    refresh_dyn(pool);
                } else {
                    let g: u64 = kani::any();
                    pool.give_back_resource(Res { generation: g }, g).unwrap();
                }
            }
        }
        Ok(())
    }
}

pub fn refresh_dyn(pool: &ResourcePool<Res>) {
    let d = pool.discriminant().unwrap();
    kani::assume(d < u64::MAX);
    let dn = d + 1;
    pool.set_discriminant(dn).unwrap();
    pool.clear();
    if pool.size() >= 1 && kani::any() {
        pool.give_back_resource(Res { generation: dn }, dn).unwrap();
        if pool.size() >= 2 && kani::any() {
            pool.give_back_resource(Res { generation: dn }, dn).unwrap();
        }
    }
}

pub fn arm(on: bool) {
    unsafe {
        PREEMPT_ARMED = on;
    }
}

// ---- stubs (listed in evidence) ---------------------------------------------------------------
pub fn notify_one_noop(_c: &std::sync::Condvar) {}
pub fn fmt_format_stub(_a: std::fmt::Arguments<'_>) -> String {
    String::new()
}
pub fn backtrace_stub() -> std::backtrace::Backtrace {
    std::backtrace::Backtrace::disabled()
}

pub fn wait_timeout_cut<'a, T>(
    _c: &std::sync::Condvar,
    _g: std::sync::MutexGuard<'a, T>,
    _d: Duration,
) -> std::sync::LockResult<(std::sync::MutexGuard<'a, T>, std::sync::WaitTimeoutResult)> {
    // blocking on an empty pool (liveness clause) is outside the claim: cut the path
    kani::assume(false);
    unreachable!()
}

/// `VecDeque::grow` (reallocation) is never needed on correct code because the harness gives the
/// deque capacity SIZE + 2.  Its symbolic-size realloc/memcpy is what exhausts CBMC's memory once two
/// of them are reachable in symex, so it is replaced by a *checked* cut: reaching it is reported.
pub fn grow_stub<T, A: std::alloc::Allocator>(_d: &mut std::collections::VecDeque<T, A>) {
    assert!(false, "C18-harness: deque outgrew SIZE + 2 (pool far above its size)");
    kani::assume(false);
}

/// anyhow::Error's destructor dispatches through a vtable; CBMC's function-pointer removal then
/// explores the drop glue of every error payload, including captured backtraces (nested loops over
/// frames and symbols: the measured cause of the 300 s time-outs).  Errors are leaked instead.
pub fn anyhow_drop_noop(_e: &mut anyhow::Error) {}

const T: Duration = Duration::from_millis(0);


pub fn pool_from_arbitrary_valid_state<const IDLE: usize, const SIZE: usize>() -> ResourcePool<Res> {
    // arbitrary valid pre-state: IDLE <= SIZE idle resources, all of the pool's current generation
    // g0 (the representation invariant the public API is meant to maintain).  SIZE and IDLE are
    // enumerated shapes: a symbolic deque length makes every buffer access a symbolic-offset
    // byte update, and CBMC's flattening of nested ones is exponential (measured: 13 GB).
    // The buffer capacity is fixed to SIZE + 2 up front (unobservable through the API) so that the
    // deque never reallocates unless the pool already exceeds its size by two (see grow_stub).
    let g0: u64 = kani::any();
    let mut v = Vec::with_capacity(SIZE + 2);
    if IDLE >= 1 { v.push(Res { generation: g0 }); }
    if IDLE >= 2 { v.push(Res { generation: g0 }); }
    if IDLE >= 3 { v.push(Res { generation: g0 }); }
    let pool = ResourcePool::new(SIZE, v);
    pool.set_discriminant(g0).unwrap();
    pool
}

/// Drain the pool and assert every idle resource belongs to the current generation.
pub fn assert_idle_all_current(pool: &ResourcePool<Res>, max_size: usize) {
    let d = pool.discriminant().unwrap();
    let mut n = 0;
    while pool.count().unwrap() > 0 && n < max_size + 1 {
        let item = pool.acquire_resource(T).unwrap();
        assert!(item.discriminant() == d, "C18: item carries current generation at acquisition");
        assert!(item.generation == d, "C18: idle resource of a superseded generation served");
        std::mem::forget(item);
        n += 1;
    }
}

pub fn refresh<const REFILL: usize>(pool: &ResourcePool<Res>) {
    // mithril-aggregator/src/services/prover.rs compute_cache: bump, clear, refill
    let d = pool.discriminant().unwrap();
    kani::assume(d < u64::MAX);
    let dn = d + 1;
    pool.set_discriminant(dn).unwrap();
    pool.clear();
    if REFILL >= 1 { pool.give_back_resource(Res { generation: dn }, dn).unwrap(); }
    if REFILL >= 2 { pool.give_back_resource(Res { generation: dn }, dn).unwrap(); }
    if REFILL >= 3 { pool.give_back_resource(Res { generation: dn }, dn).unwrap(); }
}

pub fn do_acquire<'a>(pool: &'a ResourcePool<Res>, h: &mut Option<ResourcePoolItem<'a, Res>>) {
    if h.is_none() && pool.count().unwrap() > 0 {
        let item = pool.acquire_resource(T).unwrap();
        let d = pool.discriminant().unwrap();
        assert!(item.discriminant() == d, "C18: item tagged with current generation");
        assert!(item.generation == d, "C18: acquired resource of a superseded generation");
        *h = Some(item);
    }
}

/// Vacuity twin: same harness shape, final assert(false) must be reported as failing.
#[kani::proof]
#[kani::unwind(5)]
#[kani::stub(std::sync::Condvar::notify_one, notify_one_noop)]
#[kani::stub(std::sync::Condvar::wait_timeout, wait_timeout_cut)]
#[kani::stub(alloc::fmt::format, fmt_format_stub)]
#[kani::stub(std::backtrace::Backtrace::capture, backtrace_stub)]
#[kani::stub(std::collections::VecDeque::grow, grow_stub)]
#[kani::stub(<anyhow::Error as core::ops::Drop>::drop, anyhow_drop_noop)]
pub fn c18_vacuity_twin() {
    let pool = pool_from_arbitrary_valid_state::<1, 2>();
    let g: u64 = kani::any();
    pool.give_back_resource(Res { generation: g }, g).unwrap();
    assert!(false, "TWIN: must be reachable");
}

/// Return a held item by a symbolically chosen path: explicit give-back or implicit (drop).
pub fn give_back_any<'a>(pool: &'a ResourcePool<Res>, h: &mut Option<ResourcePoolItem<'a, Res>>) {
    if let Some(item) = h.take() {
        if kani::any() {
            pool.give_back_resource_pool_item(item).unwrap();
        } else {
            drop(item);
        }
    }
}

/// A caller handing a resource of generation g back under tag g (honest raw use, as the cache
/// refill does); g is arbitrary: current, older or newer.
pub fn raw_give_back(pool: &ResourcePool<Res>) {
    let g: u64 = kani::any();
    pool.give_back_resource(Res { generation: g }, g).unwrap();
}

pub fn check_count(pool: &ResourcePool<Res>) {
    assert!(pool.count().unwrap() <= pool.size(), "C18: pool holds more than its size");
}

/// Symbolic refill count 0..=SIZE (nested ifs, no loop counter).
pub fn refresh_any<const SIZE: usize>(pool: &ResourcePool<Res>) {
    let d = pool.discriminant().unwrap();
    kani::assume(d < u64::MAX);
    let dn = d + 1;
    pool.set_discriminant(dn).unwrap();
    pool.clear();
    if SIZE >= 1 && kani::any() {
        pool.give_back_resource(Res { generation: dn }, dn).unwrap();
        if SIZE >= 2 && kani::any() {
            pool.give_back_resource(Res { generation: dn }, dn).unwrap();
            if SIZE >= 3 && kani::any() {
                pool.give_back_resource(Res { generation: dn }, dn).unwrap();
            }
        }
    }
}

/// One user-visible pool operation, chosen by the solver.
#[derive(Clone, Copy, PartialEq, Eq, kani::Arbitrary)]
pub enum Op {
    Nop,
    Acquire,
    GiveBack,
    RawGiveBack,
    Refresh,
    Reset,
}

/// STEPS solver-chosen operations by USERS users from an arbitrary valid state, invariant checked
/// after every operation, everything still held returned by a solver-chosen path, pool drained.
pub fn history<const STEPS: usize, const SIZE: usize, const IDLE: usize, const USERS: usize>() {
    history_p::<STEPS, SIZE, IDLE, USERS, false>()
}

pub fn history_p<const STEPS: usize, const SIZE: usize, const IDLE: usize, const USERS: usize, const PREEMPT: bool>() {
    let pool = pool_from_arbitrary_valid_state::<IDLE, SIZE>();
    if PREEMPT {
        unsafe {
            PREEMPT_POOL = &pool as *const _;
        }
    }
    let mut h0: Option<ResourcePoolItem<'_, Res>> = None;
    let mut h1: Option<ResourcePoolItem<'_, Res>> = None;
    let mut step = 0;
    let mut refreshed_while_held = false;
    while step < STEPS {
        let op: Op = kani::any();
        let second: bool = if USERS >= 2 { kani::any() } else { false };
        match op {
            Op::Nop => {}
            Op::Acquire => {
                if second { do_acquire(&pool, &mut h1) } else { do_acquire(&pool, &mut h0) }
            }
            Op::GiveBack => {
                arm(PREEMPT);
                if second { give_back_any(&pool, &mut h1) } else { give_back_any(&pool, &mut h0) }
                arm(false);
            }
            Op::RawGiveBack => {
                arm(PREEMPT);
                raw_give_back(&pool);
                arm(false);
            }
            Op::Refresh => {
                refresh_any::<SIZE>(&pool);
                if h0.is_some() || h1.is_some() {
                    refreshed_while_held = true;
                }
            }
            Op::Reset => pool.reset_available_resources().unwrap(),
        }
        check_count(&pool);
        step += 1;
    }
    kani::cover!(refreshed_while_held, "witness: item held across a refresh");
    arm(PREEMPT);
    give_back_any(&pool, &mut h0);
    give_back_any(&pool, &mut h1);
    arm(false);
    kani::cover!(!PREEMPT || unsafe { PREEMPTED }, "witness: a give-back was preempted inside reset (preempt harnesses)");
    check_count(&pool);
    assert_idle_all_current(&pool, SIZE);
    kani::cover!(true, "witness: end of history reachable");
    std::mem::forget(h0);
    std::mem::forget(h1);
}

macro_rules! history_harness {
    ($name:ident, $steps:expr, $size:expr, $idle:expr, $users:expr) => {
        #[kani::proof]
        #[kani::unwind(6)]
        #[kani::stub(std::sync::Condvar::notify_one, notify_one_noop)]
        #[kani::stub(std::sync::Condvar::wait_timeout, wait_timeout_cut)]
        #[kani::stub(alloc::fmt::format, fmt_format_stub)]
        #[kani::stub(std::backtrace::Backtrace::capture, backtrace_stub)]
        #[kani::stub(std::collections::VecDeque::grow, grow_stub)]
        #[kani::stub(<anyhow::Error as core::ops::Drop>::drop, anyhow_drop_noop)]
        pub fn $name() {
            history::<$steps, $size, $idle, $users>();
        }
    };
}
macro_rules! preempt_harness {
    ($name:ident, $steps:expr, $size:expr, $idle:expr, $users:expr) => {
        #[kani::proof]
        #[kani::unwind(6)]
        #[kani::stub(std::sync::Condvar::notify_one, notify_one_noop)]
        #[kani::stub(std::sync::Condvar::wait_timeout, wait_timeout_cut)]
        #[kani::stub(alloc::fmt::format, fmt_format_stub)]
        #[kani::stub(std::backtrace::Backtrace::capture, backtrace_stub)]
        #[kani::stub(std::collections::VecDeque::grow, grow_stub)]
        #[kani::stub(<anyhow::Error as core::ops::Drop>::drop, anyhow_drop_noop)]
        pub fn $name() {
            history_p::<$steps, $size, $idle, $users, true>();
        }
    };
}
// one preemption inside a give-back (quick: 2 steps; thorough: 3)
preempt_harness!(c18_pre_h2_s2_i1_u1, 2, 2, 1, 1);
preempt_harness!(c18_pre_h3_s2_i1_u1, 3, 2, 1, 1);
preempt_harness!(c18_pre_h2_s2_i2_u2, 2, 2, 2, 2);
// quick tier
history_harness!(c18_sym_h3_s2_i1_u1, 3, 2, 1, 1);
history_harness!(c18_sym_h3_s1_i1_u1, 3, 1, 1, 1);
history_harness!(c18_sym_h3_s2_i0_u1, 3, 2, 0, 1);
history_harness!(c18_sym_h2_s2_i2_u2, 2, 2, 2, 2);
// thorough tier
history_harness!(c18_sym_h4_s2_i1_u1, 4, 2, 1, 1);
history_harness!(c18_sym_h4_s1_i1_u1, 4, 1, 1, 1);
history_harness!(c18_sym_h4_s2_i0_u1, 4, 2, 0, 1);
history_harness!(c18_sym_h3_s2_i2_u2, 3, 2, 2, 2);
history_harness!(c18_sym_h4_s2_i2_u2, 4, 2, 2, 2);
history_harness!(c18_sym_h3_s3_i2_u2, 3, 3, 2, 2);
history_harness!(c18_sym_h3_s3_i3_u2, 3, 3, 3, 2);
history_harness!(c18_sym_h5_s2_i1_u1, 5, 2, 1, 1);
