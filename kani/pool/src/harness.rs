use mithril_resource_pool::{Reset, ResourcePool, ResourcePoolItem};
use std::time::Duration;

/// A pooled resource that remembers the generation (discriminant) it was built for.
pub struct Res {
    generation: u64,
}
impl Reset for Res {}

// ---- stubs (listed in evidence) ---------------------------------------------------------------
pub fn notify_one_noop(_c: &std::sync::Condvar) {}
pub fn fmt_format_stub(_a: std::fmt::Arguments<'_>) -> String {
    String::new()
}
pub fn backtrace_stub() -> std::backtrace::Backtrace {
    std::backtrace::Backtrace::disabled()
}

pub fn wait_timeout_cut<'a, T>(
    _c: &std::sync::Condvar,
    _g: std::sync::MutexGuard<'a, T>,
    _d: Duration,
) -> std::sync::LockResult<(std::sync::MutexGuard<'a, T>, std::sync::WaitTimeoutResult)> {
    // blocking on an empty pool (liveness clause) is outside the claim: cut the path
    kani::assume(false);
    unreachable!()
}

/// `VecDeque::grow` (reallocation) is never needed on correct code because the harness gives the
/// deque capacity SIZE + 2.  Its symbolic-size realloc/memcpy is what exhausts CBMC's memory once two
/// of them are reachable in symex, so it is replaced by a *checked* cut: reaching it is reported.
pub fn grow_stub<T, A: std::alloc::Allocator>(_d: &mut std::collections::VecDeque<T, A>) {
    assert!(false, "C18-harness: deque outgrew SIZE + 2 (pool far above its size)");
    kani::assume(false);
}

const T: Duration = Duration::from_millis(0);


pub fn pool_from_arbitrary_valid_state<const IDLE: usize, const SIZE: usize>() -> ResourcePool<Res> {
    // arbitrary valid pre-state: IDLE <= SIZE idle resources, all of the pool's current generation
    // g0 (the representation invariant the public API is meant to maintain).  SIZE and IDLE are
    // enumerated shapes: a symbolic deque length makes every buffer access a symbolic-offset
    // byte update, and CBMC's flattening of nested ones is exponential (measured: 13 GB).
    // The buffer capacity is fixed to SIZE + 2 up front (unobservable through the API) so that the
    // deque never reallocates unless the pool already exceeds its size by two (see grow_stub).
    let g0: u64 = kani::any();
    let mut v = Vec::with_capacity(SIZE + 2);
    if IDLE >= 1 { v.push(Res { generation: g0 }); }
    if IDLE >= 2 { v.push(Res { generation: g0 }); }
    if IDLE >= 3 { v.push(Res { generation: g0 }); }
    let pool = ResourcePool::new(SIZE, v);
    pool.set_discriminant(g0).unwrap();
    pool
}

/// Drain the pool and assert every idle resource belongs to the current generation.
pub fn assert_idle_all_current(pool: &ResourcePool<Res>, max_size: usize) {
    let d = pool.discriminant().unwrap();
    let mut n = 0;
    while pool.count().unwrap() > 0 && n < max_size + 1 {
        let item = pool.acquire_resource(T).unwrap();
        assert!(item.discriminant() == d, "C18: item carries current generation at acquisition");
        assert!(item.generation == d, "C18: idle resource of a superseded generation served");
        std::mem::forget(item);
        n += 1;
    }
}

pub fn refresh<const REFILL: usize>(pool: &ResourcePool<Res>) {
    // mithril-aggregator/src/services/prover.rs compute_cache: bump, clear, refill
    let d = pool.discriminant().unwrap();
    kani::assume(d < u64::MAX);
    let dn = d + 1;
    pool.set_discriminant(dn).unwrap();
    pool.clear();
    if REFILL >= 1 { pool.give_back_resource(Res { generation: dn }, dn).unwrap(); }
    if REFILL >= 2 { pool.give_back_resource(Res { generation: dn }, dn).unwrap(); }
    if REFILL >= 3 { pool.give_back_resource(Res { generation: dn }, dn).unwrap(); }
}

pub fn do_acquire<'a>(pool: &'a ResourcePool<Res>, h: &mut Option<ResourcePoolItem<'a, Res>>) {
    if h.is_none() && pool.count().unwrap() > 0 {
        let item = pool.acquire_resource(T).unwrap();
        let d = pool.discriminant().unwrap();
        assert!(item.discriminant() == d, "C18: item tagged with current generation");
        assert!(item.generation == d, "C18: acquired resource of a superseded generation");
        *h = Some(item);
    }
}

/// Vacuity twin: same harness shape, final assert(false) must be reported as failing.
#[kani::proof]
#[kani::unwind(5)]
#[kani::stub(std::sync::Condvar::notify_one, notify_one_noop)]
#[kani::stub(std::sync::Condvar::wait_timeout, wait_timeout_cut)]
#[kani::stub(alloc::fmt::format, fmt_format_stub)]
#[kani::stub(std::backtrace::Backtrace::capture, backtrace_stub)]
#[kani::stub(std::collections::VecDeque::grow, grow_stub)]
pub fn c18_vacuity_twin() {
    let pool = pool_from_arbitrary_valid_state::<1, 2>();
    let g: u64 = kani::any();
    pool.give_back_resource(Res { generation: g }, g).unwrap();
    assert!(false, "TWIN: must be reachable");
}

/// Return a held item by a symbolically chosen path: explicit give-back or implicit (drop).
pub fn give_back_any<'a>(pool: &'a ResourcePool<Res>, h: &mut Option<ResourcePoolItem<'a, Res>>) {
    if let Some(item) = h.take() {
        if kani::any() {
            pool.give_back_resource_pool_item(item).unwrap();
        } else {
            drop(item);
        }
    }
}

/// A caller handing a resource of generation g back under tag g (honest raw use, as the cache
/// refill does); g is arbitrary: current, older or newer.
pub fn raw_give_back(pool: &ResourcePool<Res>) {
    let g: u64 = kani::any();
    pool.give_back_resource(Res { generation: g }, g).unwrap();
}

pub fn check_count(pool: &ResourcePool<Res>) {
    assert!(pool.count().unwrap() <= pool.size(), "C18: pool holds more than its size");
}
