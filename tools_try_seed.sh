#!/bin/bash
# usage: ./tools_try_seed.sh <patch.diff> <PROP> [tier]   — apply a seeded change to /repo, run the check, undo it.
set -u
patch=$1; prop=$2; tier=${3:-quick}
cd /verif
git -C /repo apply "$patch" || { echo "patch does not apply"; exit 3; }
./check "$prop" --tier "$tier" > ".cache/seed-$(basename $(dirname $patch))-$(basename $patch .diff)-$prop.out" 2>&1
rc=$?
git -C /repo checkout -- .
echo "rc=$rc"; tail -3 ".cache/seed-$(basename $(dirname $patch))-$(basename $patch .diff)-$prop.out" | cut -c1-400
