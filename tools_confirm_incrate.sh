#!/bin/bash
# usage: tools_confirm_incrate.sh <worktree> <patch> <demo.rs> <source file to append the demo module to> <crate> <demo test filter>
# Confirms in a scratch worktree: demo passes on the clean tree, fails with the patch; the crate's lib tests (without the demo) pass with the patch.
wt=$1; patch=$2; demo=$3; dest=$4; crate=$5; filt=$6
export CARGO_TARGET_DIR=$wt/target CARGO_NET_OFFLINE=true
cd $wt || exit 9
git checkout -q -- . ; cat $demo >> $dest
echo "== clean tree: demo"; cargo test -q --offline -p $crate --lib $filt 2>&1 | grep -E "^test result|error\[|error:" | head -3
git checkout -q -- . ; git apply $patch || { echo "PATCH DOES NOT APPLY"; exit 3; }
echo "== patched: existing lib tests (must pass)"; cargo test -q --offline -p $crate --lib 2>&1 | grep -E "^test result|error\[|error:|warning: unused" | head -3
cat $demo >> $dest
echo "== patched: demo (must fail)"; cargo test -q --offline -p $crate --lib $filt 2>&1 | grep -E "^test result|error\[|error:" | head -3
git checkout -q -- .
